#!/bin/bash
# Offline setup: put icontract (pure Python) beside the repository's interpreter.  The
# harness falls back to an equivalent wrapper when the import fails, so a failure here is
# not fatal.
cd "$(dirname "$0")" || exit 1
mkdir -p .deps evidence replays
if [ ! -d .deps/icontract ]; then
  PIP_NO_INDEX=1 /venv/bin/pip install --quiet --no-index --find-links /opt/veriftools/wheels \
      --target .deps icontract asttokens typing_extensions six 2>/dev/null \
  || PIP_NO_INDEX=1 /venv/bin/pip install --quiet --no-index --find-links /opt/veriftools/wheels \
      --target .deps icontract 2>/dev/null || echo "icontract not installed; using built-in wrapper"
fi
/venv/bin/python -c "import sys; sys.path.insert(0,'.deps'); import icontract; print('icontract', icontract.__version__)" 2>/dev/null || true
exit 0
