#!/usr/bin/env python3
"""Regenerates /verif/MANIFEST.json from the table below (keeps it valid at all times)."""
import json
import os
import subprocess

ROOT = os.path.dirname(os.path.dirname(os.path.abspath(__file__)))

TRUST = (
    "Trusted: CPython 3.12 + sys.monitoring, the explicit-state reference model vf/ref.py (cross-checked against the "
    "library until silent), AEON's parser for the fully parenthesised text the harness emits. Decides only the "
    "executions produced; counts of what the monitors observed are in the evidence file."
)

CHECKS = {
    "C01": dict(
        cat="exploration",
        tech="runtime monitoring: reference-model oracle (explicit asynchronous STG, terminal SCCs) over seeds reported by six complete strategies, under a sys.monitoring work meter",
        text="Every seed reported after each complete default strategy is judged against the terminal SCCs of the explicitly enumerated transition graph (membership, containment in node and not in successors, exactly one seed per attractor) on thousands of generated networks biased to all-NFVS nodes, complex and motif-avoidant attractors.",
        ref="7 C01",
    ),
    "C02": dict(
        cat="exploration",
        tech="runtime monitoring: differential oracle against a reference succession diagram built from explicit enumeration of all 3^n subspaces",
        text="BFS and DFS diagrams are compared node by node, edge by edge and motif by motif with the reference hierarchy of percolated trap spaces; all 256 two-variable networks exhaustively plus thousands of generated ones.",
        ref="7 C02",
    ),
    "C03": dict(
        cat="exploration",
        tech="runtime monitoring: reference-model oracle (inclusion-minimal trap spaces by enumeration of 3^n subspaces) over every strategy/option combination, early stops completed by skipping, and resumed partial diagrams",
        text="minimal_trap_spaces()/node_is_minimal after every complete strategy and option combination, after size-limited runs completed by skip_remaining/skip_to_minimal, and after BFS/DFS/minimal-space/attractor-seed resumed from random plain prefixes, compared with the enumerated minimal trap spaces.",
        ref="7 C03",
    ),
    "C04": dict(
        cat="exploration",
        tech="runtime monitoring: invariant checked after every call of random plain-expansion histories against a reference succession diagram, plus write-event tracing of node dictionaries",
        text="After every call of thousands of random histories of plain expansion calls each node is compared with the reference diagram (expanded => exact successors and motifs, unexpanded => none, no duplicates); then full expansion is compared with a fresh diagram.",
        ref="7 C04",
    ),
    "C05": dict(
        cat="exploration",
        tech="runtime monitoring: reference-model oracle over seeds of skip-completed diagrams under 6 query orders; wrapper on the reduced-STG solver observes the real pruning (avoid lists) to classify losses by mechanism",
        text="Early-stopped diagrams completed with skip nodes are queried for seeds over all nodes in six orders on fresh copies; every reference attractor must be reported (exactly once without motif-avoidant attractors), every seed must be sound; the avoid lists actually passed to the solver are explained against the documented pruning rule.",
        ref="7 C05",
    ),
    "C06": dict(
        cat="exploration",
        tech="runtime monitoring: explicit simulation of the overridden network (reachable attractors) + reference LDOI as oracle over every override of every successful intervention",
        text="Every override of every successful intervention (both strategies, bounds, forbidden sets, skip_feedforward on/off; fresh, partially expanded, shortcut and skip-completed diagrams) is simulated in the reference model: all attractors reachable from the previous trap space under the override must carry the motif; the chain of trap spaces and the final space are checked against the target.",
        ref="7 C06",
    ),
    "C07": dict(
        cat="exploration",
        tech="runtime monitoring: executable reference of the documented control output (paths x motif choices on the reference diagram, minimal driver variable sets by reference LDOI) compared with the real output",
        text="successions_to_target and the per-step override lists are compared exactly (multisets) with the reference definitions on fresh diagrams, over targets, strategies, bounds, forbidden sets and successful_only.",
        ref="7 C07",
    ),
    "C08": dict(
        cat="exploration",
        tech="runtime monitoring: reference-model oracle on node_attractor_candidates under a sweep of option pairs and configuration values; solver wrapper labels the branch taken",
        text="Candidates of every node of unexpanded, partial, full and skip-completed diagrams under all option pairs and numeric configuration extremes must be full states of the node covering every reference attractor outside the successors, or the call must raise the documented limit error.",
        ref="7 C08",
    ),
    "C09": dict(
        cat="exploration",
        tech="runtime monitoring: executable reference model of the solver's contract (enumeration of all subspaces of the argument's own dynamics) in a direct argument sweep and as icontract post-condition on every ambient solver call",
        text="trappist and compute_fixed_point_reduced_STG results are compared with the enumerated expected sets over problem x time direction x ensure x avoid x source list x limit x argument kind (network, net, restricted net); the same oracle runs as a contract inside random expansion/attractor histories.",
        ref="7 C09",
    ),
    "C10": dict(
        cat="exploration",
        tech="runtime monitoring: reference Petri-net decoder vs truth tables over the whole state space (small nets), per-update-function bitset comparison over the support (all repository models), contracts on the three functions during histories",
        text="Encoding, restriction (also chained and through the cached-parent path) and network percolation to trap spaces are compared with the original dynamics on every state for small networks and per update function for the 5-321 variable models.",
        ref="7 C10",
    ),
    "C11": dict(
        cat="exploration",
        tech="runtime monitoring: reference least-fixed-point propagation vs percolate_space/strict/conflicts/LDOI/single drivers; exhaustive on all 2-variable networks x 9 subspaces; contract on every ambient percolate_space call",
        text="Percolation results on empty, trap, non-trap, conflicting and full-state spaces are compared with the reference least fixed point (given values kept, nothing else fixed), idempotence and trap-closure are asserted, and the strict variant, LDOI tables, single drivers and conflicts are compared with their reference definitions.",
        ref="7 C11",
    ),
    "C12": dict(
        cat="exploration",
        tech="runtime monitoring: state-by-state comparison of VertexSets with reference terminal SCCs under four request orders; differential check default method vs symbolic fallback (direct and via candidate-limit 1)",
        text="node_attractor_sets on every node of full and partial diagrams under four request orders (incl. after reclaim) must equal the reference attractor of the corresponding seed over all variables; the fallback must produce the same set of attractors as the default method and the reference.",
        ref="7 C12",
    ),
    "C14": dict(
        cat="exploration",
        tech="runtime monitoring: after-every-call oracle over cached candidates/seeds/sets vs current successors + write-event log of node dictionaries (expanded False->True without cache writes)",
        text="Random histories mix attractor queries on stubs with every operation that can give a node successors, reclaim and pickling; after every call all cached answers are judged against the reference attractors and the node's current successors, and the write log is checked for caches that survived a node gaining successors.",
        ref="7 C14",
    ),
    "C13": dict(
        cat="exploration",
        tech="runtime monitoring: sys.monitoring back-edge work meter with budget + while-loop frame-fingerprint no-progress detector on random call histories",
        text="Every public call of random histories (all strategies, attractor queries on expanded/unexpanded/skipped nodes, skipping, control, extreme configurations) runs under a loop back-edge budget B(n, nodes, simulation budget) and a cycle-aware no-progress detector on while-loop heads (networks up to 23 variables, no oracle needed); max observed work/budget ratio is reported per operation kind.",
        ref="7 C13",
    ),
    "C15": dict(
        cat="fault_enumeration",
        tech="runtime monitoring with fault enumeration: every size/level limit value, configured resource limits, and an injected solver failure (clingo Control subclass) at every solver call index; invariants + reference oracle after the stop, resume compared with an uninterrupted twin",
        text="For each resumable operation every size/level limit value (fresh and pre-expanded diagrams), configured motif/candidate limits and every solver-call fault point of the enumerated networks is exercised (block/SCC expansion too, for what they cache when they swallow a failure); after each stop the partial-diagram invariants and cached attractor data are judged against the reference, False=>stubs-remain and True=>contract are asserted, and the resumed result is compared with an uninterrupted twin.",
        ref="7 C15",
    ),
    "C16": dict(
        cat="exploration",
        tech="runtime monitoring: twin-run differential (untouched vs pickle round trip / reclaim inserted at a cut point) over random full-API histories, comparing return values and id-level dumps after every later call",
        text="A pickle round trip and/or reclaim_node_data inserted at random (thorough: every) cut points of random histories must leave every later return value and the complete id-level dump identical to the untouched twin.",
        ref="7 C16",
    ),
    "C17": dict(
        cat="exploration",
        tech="runtime monitoring: metamorphic differential (renaming, reordering, equivalent formulas, negated encoding, bnet/aeon/sbml, name sanitising) with the transformation itself validated on the reference model",
        text="Diagrams, minimal trap spaces and attractor sets of transformed networks, mapped back through the transformation, must equal those of the original; sanitised names must be solver-safe, distinct and semantics-preserving.",
        ref="7 C17",
    ),
    "C18": dict(
        cat="exploration",
        tech="runtime monitoring: compositional differential (products for disjoint unions, input-conditioned sub-diagrams for every source valuation) + second-implementation oracle (explicit model / AEON symbolic attractors) on repository models",
        text="Unions are compared with products of the parts' reference results, every source valuation's fixed network with the sub-diagram below its node, and build() seeds on repository models with an independent attractor computation.",
        ref="7 C18",
    ),
    "C19": dict(
        cat="exploration",
        tech="runtime monitoring: byte-level comparison of id-level dumps, summaries and intervention reprs across repeated in-process runs, fresh processes with 8 PYTHONHASHSEED values and runs after a pollution prefix",
        text="The complete observable output of 8 strategies + seeds + both control strategies per network is compared byte for byte between two computations in one process, eight processes with different hash seeds and two processes that first run unrelated diagrams.",
        ref="7 C19",
    ),
    "C20": dict(
        cat="exploration",
        tech="runtime monitoring: after-every-call invariant (networkx longest path vs reported depth, id contiguity, find_node oracle), inclusion oracle for is_subgraph/is_isomorphic, parsed summary() vs reference attractors and minimal trap spaces",
        text="Depth, ids, len, find_node are checked after every call of random histories that rediscover nodes through longer paths; is_subgraph/is_isomorphic are compared with node/edge-set inclusion; the summary after build() must list every reference attractor once with the right label.",
        ref="7 C20",
    ),
}

NOT_YET = {}


def main():
    props = [json.loads(l) for l in open(os.path.join(ROOT, "properties.jsonl"))]
    ids = [p["id"] for p in props]
    checks = []
    for pid in ids:
        if pid not in CHECKS:
            continue
        c = CHECKS[pid]
        checks.append(
            {
                "property_id": pid,
                "quick_cmd": f"./check {pid} --tier quick",
                "thorough_cmd": f"./check {pid} --tier thorough",
                "evidence_file": f"/verif/evidence/{pid}.json",
                "replay_cmd_template": f"./check {pid} --replay {{path}}",
                "engine": "vf",
                "level_claimed": {"category": c["cat"], "text": c["text"], "design_ref": "DESIGN.md section " + c["ref"]},
                "level_note": c.get("note", TRUST),
                "technique": c["tech"],
            }
        )
    na = []
    for pid in ids:
        if pid not in CHECKS:
            na.append({"property_id": pid, "reason": NOT_YET.get(pid, "check under construction in this session; not claimed until its monitors are silent on the unchanged tree")})
    try:
        commits = subprocess.check_output(["git", "-C", "/repo", "log", "--format=%h %s", "3ce4f8a..HEAD"], text=True).strip().splitlines()
    except Exception:
        commits = []
    m = {
        "version": 1,
        "setup_cmd": "./setup.sh",
        "hooks": {
            "guard": "BIOBALM_VERIF",
            "enable": "no source hooks: all monitors attach from the harness (module-global patching, sys.monitoring, graph swap); BIOBALM_VERIF=1 is set by ./check and read only by the harness",
            "baseline_off_cmd": "cd /repo && /venv/bin/python -m pytest -ra -q -p no:cacheprovider --timeout=900 --continue-on-collection-errors",
            "source_commits": [],
            "add_only": True,
        },
        "engines": [
            {
                "name": "vf",
                "path": "/verif/vf",
                "serves_properties": sorted(CHECKS),
                "kind_free_text": "Python runtime-monitoring harness: generated/hostile workloads + call histories in 16 worker processes, reference-model oracles, contracts on real functions, write-tracing node dictionaries, sys.monitoring work meter, solver fault injector",
            }
        ],
        "checks": checks,
        "not_applicable": na,
        "notes": "Exit codes: 0 held on everything observed, 1 VIOLATION (unlisted), 2 inconclusive. Known findings: /verif/known_findings.json. fix: commits in /repo: " + "; ".join(c for c in commits if " fix:" in c),
    }
    with open(os.path.join(ROOT, "MANIFEST.json"), "w") as fh:
        json.dump(m, fh, indent=1)
    print("MANIFEST.json:", len(checks), "checks,", len(na), "not claimed")


if __name__ == "__main__":
    main()
