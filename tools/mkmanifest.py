#!/usr/bin/env python3
"""Regenerates /verif/MANIFEST.json from the table below (keeps it valid at all times)."""
import json
import os
import subprocess

ROOT = os.path.dirname(os.path.dirname(os.path.abspath(__file__)))

TRUST = (
    "Trusted: CPython 3.12 + sys.monitoring, the explicit-state reference model vf/ref.py (cross-checked against the "
    "library until silent), AEON's parser for the fully parenthesised text the harness emits. Decides only the "
    "executions produced; counts of what the monitors observed are in the evidence file."
)

CHECKS = {
    "C01": dict(
        cat="exploration",
        tech="runtime monitoring: reference-model oracle (explicit asynchronous STG, terminal SCCs) over seeds reported by six complete strategies, under a sys.monitoring work meter",
        text="Every seed reported after each complete default strategy is judged against the terminal SCCs of the explicitly enumerated transition graph (membership, containment in node and not in successors, exactly one seed per attractor) on thousands of generated networks biased to all-NFVS nodes, complex and motif-avoidant attractors.",
        ref="7 C01",
    ),
    "C02": dict(
        cat="exploration",
        tech="runtime monitoring: differential oracle against a reference succession diagram built from explicit enumeration of all 3^n subspaces",
        text="BFS and DFS diagrams are compared node by node, edge by edge and motif by motif with the reference hierarchy of percolated trap spaces; all 256 two-variable networks exhaustively plus thousands of generated ones.",
        ref="7 C02",
    ),
    "C13": dict(
        cat="exploration",
        tech="runtime monitoring: sys.monitoring back-edge work meter with budget + while-loop frame-fingerprint no-progress detector on random call histories",
        text="Every public call of random histories (all strategies, attractor queries on expanded/unexpanded/skipped nodes, skipping, control, extreme configurations) runs under a loop back-edge budget B(n, nodes) and a no-progress detector; max observed work/budget ratio is reported per operation kind.",
        ref="7 C13",
    ),
}

NOT_YET = {}


def main():
    props = [json.loads(l) for l in open(os.path.join(ROOT, "properties.jsonl"))]
    ids = [p["id"] for p in props]
    checks = []
    for pid in ids:
        if pid not in CHECKS:
            continue
        c = CHECKS[pid]
        checks.append(
            {
                "property_id": pid,
                "quick_cmd": f"./check {pid} --tier quick",
                "thorough_cmd": f"./check {pid} --tier thorough",
                "evidence_file": f"/verif/evidence/{pid}.json",
                "replay_cmd_template": f"./check {pid} --replay {{path}}",
                "engine": "vf",
                "level_claimed": {"category": c["cat"], "text": c["text"], "design_ref": "DESIGN.md section " + c["ref"]},
                "level_note": c.get("note", TRUST),
                "technique": c["tech"],
            }
        )
    na = []
    for pid in ids:
        if pid not in CHECKS:
            na.append({"property_id": pid, "reason": NOT_YET.get(pid, "check under construction in this session; not claimed until its monitors are silent on the unchanged tree")})
    try:
        commits = subprocess.check_output(["git", "-C", "/repo", "log", "--format=%h %s", "3ce4f8a..HEAD"], text=True).strip().splitlines()
    except Exception:
        commits = []
    m = {
        "version": 1,
        "setup_cmd": "./setup.sh",
        "hooks": {
            "guard": "BIOBALM_VERIF",
            "enable": "no source hooks: all monitors attach from the harness (module-global patching, sys.monitoring, graph swap); BIOBALM_VERIF=1 is set by ./check and read only by the harness",
            "baseline_off_cmd": "cd /repo && /venv/bin/python -m pytest -ra -q -p no:cacheprovider --timeout=900 --continue-on-collection-errors",
            "source_commits": [],
            "add_only": True,
        },
        "engines": [
            {
                "name": "vf",
                "path": "/verif/vf",
                "serves_properties": sorted(CHECKS),
                "kind_free_text": "Python runtime-monitoring harness: generated/hostile workloads + call histories in 16 worker processes, reference-model oracles, contracts on real functions, write-tracing node dictionaries, sys.monitoring work meter, solver fault injector",
            }
        ],
        "checks": checks,
        "not_applicable": na,
        "notes": "Exit codes: 0 held on everything observed, 1 VIOLATION (unlisted), 2 inconclusive. Known findings: /verif/known_findings.json. fix: commits in /repo: " + "; ".join(c for c in commits if " fix:" in c),
    }
    with open(os.path.join(ROOT, "MANIFEST.json"), "w") as fh:
        json.dump(m, fh, indent=1)
    print("MANIFEST.json:", len(checks), "checks,", len(na), "not claimed")


if __name__ == "__main__":
    main()
