#!/usr/bin/env python3
"""tools/mkmut.py out.diff file 'old' 'new' [file 'old' 'new' ...] — build a patch against /repo HEAD by textual replacement
(in a scratch worktree, removed afterwards)."""
import subprocess, sys, tempfile, os
out = os.path.abspath(sys.argv[1]); args = sys.argv[2:]
wt = tempfile.mkdtemp(prefix="wtm_", dir="/tmp")
subprocess.check_call(["git", "-C", "/repo", "worktree", "add", "-q", "--detach", wt, "HEAD"])
try:
    for i in range(0, len(args), 3):
        f, old, new = args[i:i+3]
        p = os.path.join(wt, f); s = open(p).read()
        old = old.encode().decode("unicode_escape"); new = new.encode().decode("unicode_escape")
        assert s.count(old) == 1, f"{f}: {s.count(old)} occurrences of {old!r}"
        open(p, "w").write(s.replace(old, new))
    d = subprocess.check_output(["git", "-C", wt, "diff"], text=True)
    open(out, "w").write(d); print(d)
finally:
    subprocess.call(["git", "-C", "/repo", "worktree", "remove", "--force", wt])
