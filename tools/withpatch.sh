#!/bin/bash
# tools/withpatch.sh <patch.diff> <check args...>   — run a check against a scratch worktree of /repo with a patch applied
# (never touches /repo's working tree; worktree removed afterwards)
P=$(realpath "$1"); shift
WT=$(mktemp -d /tmp/wt_XXXXXX)
git -C /repo worktree add -q --detach "$WT" HEAD || exit 3
( cd "$WT" && git apply "$P" ) || { echo "patch failed"; git -C /repo worktree remove --force "$WT"; exit 3; }
ln -s /repo/models "$WT/models" 2>/dev/null
VERIF_REPO="$WT" /verif/check "$@" --no-evidence
rc=$?
git -C /repo worktree remove --force "$WT"
exit $rc
