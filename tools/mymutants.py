#!/usr/bin/env python3
"""Own deliberate property-breaking changes (DESIGN.md section 7, 'M' entries): builds each as a
patch in a scratch worktree, runs the named quick checks against it and prints a table.
usage: tools/mymutants.py [name-substring]"""
import json
import os
import subprocess
import sys
import tempfile

SD = "biobalm/succession_diagram.py"
AC = "biobalm/_sd_attractors/attractor_candidates.py"
AS = "biobalm/_sd_attractors/attractor_symbolic.py"
TC = "biobalm/trappist_core.py"
PT = "biobalm/petri_net_translation.py"
SU = "biobalm/space_utils.py"
CT = "biobalm/control.py"
BL = "biobalm/_sd_algorithms/expand_source_blocks.py"
SC = "biobalm/_sd_algorithms/expand_source_SCCs.py"
MS = "biobalm/_sd_algorithms/expand_minimal_spaces.py"
BF = "biobalm/_sd_algorithms/expand_bfs.py"
DF = "biobalm/_sd_algorithms/expand_dfs.py"
TG = "biobalm/_sd_algorithms/expand_to_target.py"
AT = "biobalm/_sd_algorithms/expand_attractor_seeds.py"

M = [
    ("C01-no-avoid-closure", "C01,C12", [(AS, "        avoid = avoid.union(closure)\n        seeds.append(candidate | node_space)", "        seeds.append(candidate | node_space)")]),
    ("C01-clean-block-always", "C01,C05", [(BL, "                        is_clean = len(block_sd_candidates) == 0\n", "                        is_clean = True\n")]),
    ("C01-scc-maa-unconditional", "C01,C18", [(SC, "            if len(scc_sd.node_attractor_candidates(scc_node_id, compute=True)) == 0:\n", "            if True:\n")]),
    ("C02-no-percolation-in-ensure-node", "C02,C04", [(SD, "        fixed_vars = percolate_space(self.symbolic, stable_motif)\n\n        key =", "        fixed_vars = dict(stable_motif)\n\n        key =")]),
    ("C02-drop-source-clause", "C02,C09", [(TC, "        for variable in optimize_source_variables:\n            if variable not in ensure_subspace:", "        for variable in optimize_source_variables[1:]:\n            if variable not in ensure_subspace:")]),
    ("C02-dedupe-noninjective-key", "C02,C04,C20", [(SU, "        key |= (v + 2) << (2 * int(var))", "        key |= (v + 2) << (2 * (int(var) % 5))")]),
    ("C03-skip-edge-dropped", "C03,C05", [(SD, "                if is_subspace(m_trap, node[\"space\"]):\n                    self._ensure_edge(node_id, m_id, m_trap)\n                    skip_edges += 1", "                if is_subspace(m_trap, node[\"space\"]) and skip_edges < 2:\n                    self._ensure_edge(node_id, m_id, m_trap)\n                    skip_edges += 1")]),
    ("C03-nonminimal-block", "C03,C01", [(BL, "                        if b2 < block:\n", "                        if b2 > block:\n")]),
    ("C03-minspace-prune-offbyone", "C03,C15", [(MS, "            if len([s for s in minimal_traps if is_subspace(s, node_space)]) == 0:", "            if len([s for s in minimal_traps if is_subspace(s, node_space)]) <= (1 if len(minimal_traps) > 3 else 0):")]),
    ("C04-expanded-before-children", "C04,C15", [(SD, "        for sub_space in sub_spaces:\n            self._ensure_node(node_id, sub_space)\n", "        node[\"expanded\"] = True\n        for sub_space in sub_spaces:\n            if len(self) > 12:\n                return\n            self._ensure_node(node_id, sub_space)\n")]),
    ("C05-prune-by-ancestors", "C05", [(AC, "            if is_subspace(node_space, n_data[\"space\"]):\n                # This means that (in a fully", "            if False and is_subspace(node_space, n_data[\"space\"]):\n                # This means that (in a fully")]),
    ("C05-skip-to-minimal-drops-one", "C05,C03", [(SD, "        minimal_traps = [(node[\"space\"] | x) for x in minimal_traps]\n", "        minimal_traps = [(node[\"space\"] | x) for x in minimal_traps]\n        if len(minimal_traps) > 2:\n            minimal_traps = minimal_traps[:-1]\n")]),
    ("C06-unaccumulated-assume-fixed", "C06,C07", [(CT, "        ldoi = percolate_space(bn, ts | assume_fixed)\n        assume_fixed.update(ldoi)", "        ldoi = percolate_space(bn, ts)\n        assume_fixed.update(ldoi)")]),
    ("C06-internal-wrong-value", "C06,C07", [(CT, "                    k: cast(Literal[0, 1], target_trap_space_inner[k])\n                    for k in driver_set", "                    k: cast(Literal[0, 1], target_trap_space_inner[k] if len(driver_set) < 2 else 1 - target_trap_space_inner[k])\n                    for k in driver_set")]),
    ("C06-accept-hot-lava-minimal", "C06,C07", [(CT, "        if not is_consistent or (not is_goal and is_minimal):", "        if not is_consistent:")]),
    ("C07-size-loop-one-short", "C07", [(CT, "    for driver_set_size in range(max_drivers_per_succession_node + 1):", "    for driver_set_size in range(max(1, max_drivers_per_succession_node)):")]),
    ("C07-ignore-forbidden-all", "C07,C06", [(CT, "        driver_pool = set(bn.network_variable_names()) - forbidden_drivers", "        driver_pool = set(bn.network_variable_names())")]),
    ("C07-superset-by-value", "C07", [(CT, "            if any(set(d) <= set(driver_set) for d in drivers):\n                continue\n", "")]),
    ("C08-sim-drops-unresolved", "C08,C01", [(AC, "            if is_valid_candidate:\n                # If we cannot rule out", "            if is_valid_candidate and len(filtered_candidates) < 3:\n                # If we cannot rule out")]),
    ("C08-greedy-keeps-truncated", "C08", [(AC, "            if len(candidate_states_2) < len(candidate_states):\n                retained_set = retained_set_2", "            if len(candidate_states_2) <= len(candidate_states):\n                retained_set = retained_set_2")]),
    ("C09-ensure-polarity", "C09,C02", [(TC, "        positive = True\n        if ensure_subspace[fixed_var] == 1:\n            positive = False", "        positive = False\n        if ensure_subspace[fixed_var] == 1:\n            positive = True")]),
    ("C09-reduced-keeps-wrong-direction", "C09,C08", [(TC, "        source_place = variable_to_place(node, positive=(b_i == 1))", "        source_place = variable_to_place(node, positive=(b_i == 0))")]),
    ("C09-max-dom-mod", "C09,C02", [(TC, "        dom_mod = \"--dom-mod=5, 16\"  # for max. trap spaces", "        dom_mod = \"--dom-mod=3, 16\"  # for max. trap spaces")]),
    ("C09-reverse-avoid-ignored", "C09", [(TC, "    for to_avoid in avoid_subspaces:\n        fixed_list = [variable_to_place(var, (to_avoid[var] != 1)) for var in to_avoid]", "    for to_avoid in ([] if reverse_time else avoid_subspaces):\n        fixed_list = [variable_to_place(var, (to_avoid[var] != 1)) for var in to_avoid]")]),
    ("C10-dnf-drops-implicant", "C10,C02", [(PT, "    for t_id, implicant in enumerate(optimized_recursive_dnf_generator(implicant_bdd)):\n        total += 1", "    for t_id, implicant in enumerate(optimized_recursive_dnf_generator(implicant_bdd)):\n        if t_id >= 6:\n            break\n        total += 1")]),
    ("C10-restrict-keeps-inverse-readers", "C10,C04", [(PT, "        for tr in result.successors(inverse_place):  # type: ignore\n            to_delete.add(cast(str, tr))", "        for tr in list(result.successors(inverse_place))[1:]:  # type: ignore\n            to_delete.add(cast(str, tr))")]),
    ("C11-percolate-overwrites-conflict", "C11", [(SU, "        result[var_name] = cast(Literal[0, 1], int(value))\n    return result", "        result[var_name] = cast(Literal[0, 1], int(value))\n    for k, v in space.items():\n        fb = network.mk_update_function(k)\n        if fb.is_true() or fb.is_false():\n            result[k] = 1 if fb.is_true() else 0\n    return result")]),
    ("C11-strict-reports-conflicts", "C11", [(SU, "                    # but we also don't want to change the value.\n                    candidates.remove(var)", "                    # but we also don't want to change the value.\n                    result[var] = fn_value\n                    candidates.remove(var)")]),
    ("C12-no-space-intersection", "C12", [(AS, "        vertices = vertices.intersect(space_symbolic)\n", "")]),
    ("C12-fallback-forgets-successors", "C12", [(AS, "            candidates = candidates.minus(sd.symbolic.mk_subspace(s_space))\n\n    if node_data[\"skipped\"]:", "            pass\n\n    if node_data[\"skipped\"]:")]),
    ("C13-sim-no-doubling", "C13", [(AC, "            iterations = 2 * iterations\n", "")]),
    ("C13-greedy-accepts-equal", "C13,C08", [(AC, "            if len(candidate_states_2) < len(candidate_states):\n                retained_set = retained_set_2", "            if len(candidate_states_2) <= len(candidate_states) and len(candidate_states) > 1:\n                retained_set = retained_set_2")]),
    ("C14-expand-keeps-seeds", "C14", [(SD, "        node[\"attractor_seeds\"] = None\n        node[\"attractor_candidates\"] = None\n        node[\"attractor_sets\"] = None\n\n        current_space = node[\"space\"]", "        node[\"attractor_candidates\"] = None\n\n        current_space = node[\"space\"]")]),
    ("C15-true-at-size-limit", "C15", [(DF, "                # Size limit reached.\n                return False", "                # Size limit reached.\n                return result_is_complete")]),
    ("C15-cache-before-limit-test", "C15,C08", [(AC, "        if len(candidate_states) >= sd.config[\"attractor_candidates_limit\"]:\n            raise RuntimeError(", "        if len(candidate_states) >= sd.config[\"attractor_candidates_limit\"]:\n            sd.node_data(node_id)[\"attractor_candidates\"] = [x | node_space for x in candidate_states]\n            raise RuntimeError(")]),
    ("C16-getstate-drops-node-indices", "C16", [(SD, "            \"node_indices\": self.node_indices,\n            \"config\": self.config,\n        }", "            \"node_indices\": {k: v for k, v in self.node_indices.items() if v < 6},\n            \"config\": self.config,\n        }")]),
    ("C16-reclaim-clears-seeds", "C16", [(SD, "            if data[\"attractor_seeds\"] is not None:\n                data[\"attractor_candidates\"] = None", "            if data[\"attractor_seeds\"] is not None:\n                data[\"attractor_candidates\"] = None\n                if len(data[\"attractor_seeds\"]) > 1:\n                    data[\"attractor_seeds\"] = None")]),
    ("C17-source-syntactic", "C17,C02", [("biobalm/interaction_graph_utils.py", "            if fn_bdd == var_bdd:\n                result.append(network.get_variable_name(var))", "            if str(update_function) == network.get_variable_name(var):\n                result.append(network.get_variable_name(var))")]),
    ("C17-sanitize-clash-reuse", "C17", [(PT, "                    new_name = \"_\" + new_name", "                    new_name = \"_\" + new_name if len(new_name) < 4 else new_name[:-1]")]),
    ("C18-block-drops-valuation", "C18,C03", [(BL, "                for bin_values in bin_values_iter:\n                    valuation = cast(BooleanSpace, dict(zip(sources, bin_values)))", "                for bin_values in list(bin_values_iter)[: max(1, 2 ** len(sources) - (1 if len(sources) > 1 else 0))]:\n                    valuation = cast(BooleanSpace, dict(zip(sources, bin_values)))")]),
    ("C19-unsorted-successor-set", "C19", [(BF, "            successors = sorted(successors)\n", "            successors = list(set(str(s) for s in successors))\n            successors = [int(s) for s in successors]\n")]),
    ("C19-sim-seed-from-id", "C19", [(AC, "                simulation_seed=123,", "                simulation_seed=id(sd) % 1000,")]),
    ("C20-depth-parent-not-plus-one", "C20", [(SD, "        if parent_depth + 1 > current_depth:\n            self.dag.nodes[node_id][\"depth\"] = parent_depth + 1", "        if parent_depth + 1 > current_depth:\n            self.dag.nodes[node_id][\"depth\"] = parent_depth + (1 if current_depth == 0 else 0) if parent_depth + (1 if current_depth == 0 else 0) > current_depth else current_depth")]),
    ("C20-find-node-subset-key", "C20", [(SD, "            key = space_unique_key(node_space, self.network)  # throws IndexError\n            if key in self.node_indices:", "            key = space_unique_key(node_space, self.network)  # throws IndexError\n            for k2 in self.node_indices:\n                if key != 0 and (k2 & key) == key and bin(k2).count(\"1\") <= bin(key).count(\"1\") + 2:\n                    return self.node_indices[k2]\n            if key in self.node_indices:")]),
    ("C20-summary-label-by-expanded", "C20", [(SD, "            if self.node_is_minimal(node):\n                space_str_prefix", "            if self.node_data(node)[\"expanded\"] and self.node_data(node)[\"depth\"] > 0:\n                space_str_prefix")]),
]


def sh(cmd, cwd=None, env=None, timeout=7200):
    p = subprocess.run(cmd, shell=True, cwd=cwd, env=env, capture_output=True, text=True, timeout=timeout)
    return p.returncode, p.stdout + p.stderr


def main():
    filt = sys.argv[1] if len(sys.argv) > 1 else ""
    suite = "--suite" in sys.argv
    results = {}
    for name, checks, edits in M:
        if filt and filt not in name and filt != "--suite":
            continue
        wt = tempfile.mkdtemp(prefix="wtm_", dir="/tmp")
        os.rmdir(wt)
        sh(f"git -C /repo worktree add -q --detach {wt} HEAD")
        try:
            ok = True
            for f, old, new in edits:
                p = os.path.join(wt, f)
                s = open(p).read()
                if s.count(old) != 1:
                    print(f"{name}: pattern occurs {s.count(old)}x in {f}")
                    ok = False
                    break
                open(p, "w").write(s.replace(old, new))
            if not ok:
                continue
            rc, o = sh("/venv/bin/python -c 'import biobalm, biobalm.control'", cwd=wt, env=dict(os.environ, PYTHONPATH=wt))
            if rc != 0:
                print(f"{name}: does not import: {o[-300:]}")
                continue
            row = {}
            if suite:
                rc, o = sh("env -u BIOBALM_VERIF /venv/bin/python -m pytest -q -x -p no:cacheprovider --timeout=900 --deselect tests/clingo_test.py::test_clingo 2>&1 | tail -1", cwd=wt)
                row["suite"] = o.strip()[-60:]
            for c in checks.split(","):
                rc, o = sh(f"/verif/check {c} --tier quick --no-evidence", env=dict(os.environ, VERIF_REPO=wt))
                keys = sorted({l.split("key=")[1].split()[0] for l in o.splitlines() if "key=" in l})
                row[c] = (rc, keys[:3])
            results[name] = row
            print(name, "|", " ; ".join(f"{c}: rc={v[0]} {v[1]}" if isinstance(v, tuple) else f"{c}: {v}" for c, v in row.items()), flush=True)
        finally:
            sh(f"git -C /repo worktree remove --force {wt}")
    json.dump(results, open("/tmp/mymutants_results.json", "w"), indent=1, default=str)


if __name__ == "__main__":
    main()
