#!/bin/bash
# tools/mkwt.sh <name> — scratch worktree of /repo HEAD for a sub-agent, with the property text only
N=$1
WT=/tmp/sa_$N
git -C /repo worktree add -q --detach $WT HEAD || exit 1
mkdir -p $WT/_out
python3 - "$N" "$WT" <<'PY'
import json,sys
pid=sys.argv[1].split('_')[0]; wt=sys.argv[2]
for l in open('/verif/properties.jsonl'):
    p=json.loads(l)
    if p['id']==pid:
        open(wt+'/_out/PROPERTY.txt','w').write(f"{p['id']} — {p['title']}\n\nStatement: {p['statement']}\n\nQuantified over: {p['quantifier']['text']}\n\nWhy the existing tests cannot settle it: {p['why_tests_cant']}\n\nAnchored in files: {', '.join(p['anchors']['files'])}\nMechanisms meant to make it hold: {json.dumps(p['anchors']['mechanism'])}\n")
PY
echo $WT
