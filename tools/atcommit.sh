#!/bin/bash
# tools/atcommit.sh <commit> <check args...> — run a check against a scratch worktree of /repo at <commit>
C="$1"; shift
WT=$(mktemp -d /tmp/wtc_XXXXXX)
git -C /repo worktree add -q --detach "$WT" "$C" || exit 3
VERIF_REPO="$WT" /verif/check "$@" --no-evidence
rc=$?
git -C /repo worktree remove --force "$WT"
exit $rc
