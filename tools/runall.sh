#!/bin/bash
# tools/runall.sh [tier] [props...] — run the quick (or given) tier of the listed (default: all claimed) checks in sequence; print rc per check
TIER=${1:-quick}; shift; cd "$(dirname "$0")/.." || exit 2
PROPS="$@"
[ -z "$PROPS" ] && PROPS=$(python3 -c "import json;print(' '.join(c['property_id'] for c in json.load(open('/verif/MANIFEST.json'))['checks']))")
for p in $PROPS; do
  s=$(date +%s); out=$(./check $p --tier $TIER 2>&1); rc=$?
  echo "$p rc=$rc $(( $(date +%s)-s ))s :: $(echo "$out" | grep -E "^\[$p\] eval" | cut -c1-160)"
  echo "$out" | grep -E "^VIOLATION|^INCONCLUSIVE|^KNOWN" | cut -c1-200 | head -5
done
