#!/usr/bin/env python3
"""tools/seedtest.py <seeded dir> [--checks C01,C12] [--tier quick] [--skip-suite]

Confirms a seeded defect (patch.diff + demo.py + meta.json) in a scratch worktree of /repo:
 1. the patch applies to HEAD and the repository's own suite still passes (130 tests),
 2. demo.py fails with the patch and passes without it,
 3. runs the given checks (default: the property in meta.json) against the patched worktree
    and records which of them report a VIOLATION.
Nothing is ever applied to /repo itself; the worktree is removed afterwards.
"""
import json
import os
import subprocess
import sys
import tempfile


def sh(cmd, cwd=None, env=None, timeout=3600):
    p = subprocess.run(cmd, shell=True, cwd=cwd, env=env, capture_output=True, text=True, timeout=timeout)
    return p.returncode, p.stdout + p.stderr


def main():
    d = os.path.abspath(sys.argv[1])
    args = sys.argv[2:]
    meta = json.load(open(os.path.join(d, "meta.json")))
    checks = [meta["property"]]
    tier = "quick"
    skip_suite = "--skip-suite" in args
    for i, a in enumerate(args):
        if a == "--checks":
            checks = args[i + 1].split(",")
        if a == "--tier":
            tier = args[i + 1]
    wt = tempfile.mkdtemp(prefix="wts_", dir="/tmp")
    os.rmdir(wt)
    sh(f"git -C /repo worktree add -q --detach {wt} HEAD")
    env = dict(os.environ)
    env["PYTHONPATH"] = wt
    out = {}
    try:
        rc, o = sh(f"/venv/bin/python {d}/demo.py", cwd=wt, env=env, timeout=900)
        out["demo_passes_without_patch"] = rc == 0
        rc, o = sh(f"git apply {d}/patch.diff", cwd=wt)
        if rc != 0:
            print("PATCH DOES NOT APPLY", o)
            out["applies"] = False
            return
        out["applies"] = True
        rc, o = sh(f"/venv/bin/python {d}/demo.py", cwd=wt, env=env, timeout=900)
        out["demo_fails_with_patch"] = rc != 0
        if not skip_suite:
            rc, o = sh("env -u BIOBALM_VERIF /venv/bin/python -m pytest -q -p no:cacheprovider --timeout=900 --deselect tests/clingo_test.py::test_clingo 2>&1 | tail -3", cwd=wt, timeout=3000)
            out["suite"] = o.strip().splitlines()[-1] if o.strip() else "?"
            out["tests_pass"] = " passed" in out["suite"] and "failed" not in out["suite"]
        det = {}
        for c in checks:
            e2 = dict(os.environ)
            e2["VERIF_REPO"] = wt
            rc, o = sh(f"/verif/check {c} --tier {tier} --no-evidence", env=e2, timeout=7200)
            keys = sorted({l.split("key=")[1].split()[0] for l in o.splitlines() if "key=" in l})
            det[c] = {"rc": rc, "violation_keys": keys[:8]}
        out["checks"] = det
        out["detected_by"] = sorted(c for c, v in det.items() if v["rc"] == 1)
    finally:
        sh(f"git -C /repo worktree remove --force {wt}")
    prev = meta.get("confirmed") or {}
    if skip_suite:
        for k in ("suite", "tests_pass"):
            if k in prev and k not in out:
                out[k] = prev[k]
    meta["confirmed"] = out
    meta["ran"] = f"tools/seedtest.py {os.path.relpath(d, '/verif')} --checks {','.join(checks)} --tier {tier}"
    json.dump(meta, open(os.path.join(d, "meta.json"), "w"), indent=1)
    print(json.dumps(out, indent=1))


if __name__ == "__main__":
    main()
