#!/bin/bash
# Runs the repository's own suite with the guard OFF; expects 130 passed, 1 failed (clingo_test, failing in the baseline too).
cd ${1:-/repo} && env -u BIOBALM_VERIF /venv/bin/python -m pytest -q -p no:cacheprovider --timeout=900 --continue-on-collection-errors 2>&1 | tail -4
