#!/usr/bin/env python3
"""Prints the Appendix C tables (markdown) from seeded/*/meta.json and seeded/own_mutants.json."""
import glob
import json
import os

ROOT = os.path.dirname(os.path.dirname(os.path.abspath(__file__)))


def main():
    print("### C.1 Changes written by independent sub-agents (kept under `seeded/<id>/`)\n")
    print("| id | property | change | needs | suite | demo | caught by (quick tier) | first violation keys |")
    print("|---|---|---|---|---|---|---|---|")
    for d in sorted(glob.glob(os.path.join(ROOT, "seeded", "*", "meta.json"))):
        m = json.load(open(d))
        c = m.get("confirmed", {})
        keys = []
        for chk, v in (c.get("checks") or {}).items():
            if v.get("rc") == 1:
                keys += [f"{chk}:{k}" for k in v.get("violation_keys", [])[:2]]
        caught = ", ".join(c.get("detected_by") or []) or "**missed**"
        allc = ", ".join(f"{k}(rc={v.get('rc')})" for k, v in (c.get("checks") or {}).items())
        print(
            f"| {os.path.basename(os.path.dirname(d))} | {m.get('property')} | {str(m.get('summary', ''))[:120].replace('|', '/')} | {str(m.get('needs', ''))[:90].replace('|', '/')} | "
            f"{'pass' if c.get('tests_pass') else c.get('suite', '?')} | {'fails with / passes without' if c.get('demo_fails_with_patch') and c.get('demo_passes_without_patch') else 'NOT CONFIRMED'} | {caught} [{allc}] | {'; '.join(keys)[:200]} |"
        )
    p = os.path.join(ROOT, "seeded", "own_mutants.json")
    if os.path.exists(p):
        print("\n### C.2 Own deliberate changes (section 7 'M' entries; `tools/mymutants.py`)\n")
        print("| change | checks run → exit code and first keys |")
        print("|---|---|")
        for name, row in json.load(open(p)).items():
            cells = []
            for c, v in row.items():
                if isinstance(v, list):
                    cells.append(f"{c}: rc={v[0]} {', '.join(v[1][:2])}")
                else:
                    cells.append(f"{c}: {v}")
            print(f"| {name} | {' ; '.join(cells)[:300]} |")


if __name__ == "__main__":
    main()
