#!/usr/bin/env python3
"""Parses the line output of tools/mymutants.py (one or more log files) into seeded/own_mutants.json.
Later lines for the same mutant override earlier ones per check."""
import ast
import json
import os
import re
import sys

ROOT = os.path.dirname(os.path.dirname(os.path.abspath(__file__)))
out = {}
p = os.path.join(ROOT, "seeded", "own_mutants.json")
if os.path.exists(p):
    out = json.load(open(p))
for f in sys.argv[1:]:
    for line in open(f):
        if " | " not in line or "rc=" not in line:
            continue
        name, rest = line.strip().split(" | ", 1)
        row = out.setdefault(name, {})
        for cell in rest.split(" ; "):
            m = re.match(r"(C\d+): rc=(-?\d+) (\[.*\])?", cell.strip())
            if m:
                try:
                    keys = ast.literal_eval(m.group(3)) if m.group(3) else []
                except Exception:
                    keys = []
                row[m.group(1)] = [int(m.group(2)), keys]
json.dump(out, open(p, "w"), indent=1)
print(len(out), "mutants recorded")
