#!/bin/bash
# tools/sweep.sh <tier> "<seeds>" [props...] — false-alarm hunt on the unchanged tree: every check, every seed, no evidence written
TIER=$1; SEEDS=$2; shift 2
PROPS="$@"
cd "$(dirname "$0")/.." || exit 2
[ -z "$PROPS" ] && PROPS=$(python3 -c "import json;print(' '.join(c['property_id'] for c in json.load(open('MANIFEST.json'))['checks']))")
for s in $SEEDS; do for p in $PROPS; do
  t=$(date +%s); out=$(VERIF_SEED=$s ./check $p --tier $TIER --no-evidence 2>/dev/null); rc=$?
  echo "seed=$s $p rc=$rc $(( $(date +%s)-t ))s :: $(echo "$out" | grep -E "^\[$p\] eval" | cut -c1-150)"
  echo "$out" | grep -E "^VIOLATION|^INCONCLUSIVE|key=" | cut -c1-220 | head -6
done; done
