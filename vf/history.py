"""Call histories on one diagram: JSON-encoded operations over the whole public surface.

Driver side (`gen_history`) knows nothing about the diagram, so node arguments are integers
resolved modulo the current node count, size limits are relative to the current size, and
targets are symbolic specs resolved against the reference model at run time.
"""
from __future__ import annotations

import pickle
import random

PLAIN = ["bfs", "dfs", "min", "attr", "target", "block_plain", "succ"]
PLAIN_Q = PLAIN + ["pn", "cand", "seeds"]  # plus pure queries that only cache per-node data
SKIPS = ["skip", "skiprem", "min_skip"]
SHORTCUTS = ["block", "scc"]
QUERIES = ["cand", "seeds", "sets", "xseeds", "xcand", "xsets"]
HOUSE = ["reclaim", "pickle"]
ALL_OPS = PLAIN + SKIPS + SHORTCUTS + QUERIES + HOUSE + ["build", "control", "summary"]


def _lim(rng, p_none=0.4):
    if rng.random() < p_none:
        return None
    return ["rel", rng.choice([-1, 0, 0, 1, 1, 2, 3, 5])]


def _small(rng, p_none=0.5):
    if rng.random() < p_none:
        return None
    return rng.choice([0, 0, 1, 1, 2, 3])


def gen_target(rng, control=False):
    kinds = ["min", "min", "node", "rand", "rand", "state"]
    if control:
        kinds = ["min"] * 6 + ["node"] * 2 + ["rand"] * 2 + ["state"]
    kind = rng.choice(kinds)
    return [kind, rng.randrange(1 << 20), rng.randint(1, 4)]


def gen_op(rng: random.Random, kind: str):
    nd = rng.randrange(64) if rng.random() < 0.6 else None
    if kind == "bfs":
        return ["bfs", nd, _small(rng), _lim(rng)]
    if kind == "dfs":
        return ["dfs", nd, _small(rng), _lim(rng)]
    if kind == "min":
        return ["min", nd, _lim(rng), False]
    if kind == "min_skip":
        return ["min", nd, _lim(rng), True]
    if kind == "attr":
        return ["attr", _lim(rng)]
    if kind == "target":
        return ["target", gen_target(rng), _lim(rng)]
    if kind == "block_plain":
        return ["block", rng.random() < 0.5, _lim(rng), False, rng.random() < 0.2]
    if kind == "block":
        return ["block", rng.random() < 0.6, _lim(rng), True, rng.random() < 0.2]
    if kind == "scc":
        return ["scc", rng.random() < 0.6]
    if kind == "succ":
        return ["succ", rng.randrange(64)]
    if kind == "succstub":
        return ["succstub", rng.randrange(1 << 16)]
    if kind == "pn":
        return ["pn", rng.randrange(64)]
    if kind == "skip":
        return ["skip", rng.randrange(64)]
    if kind == "skiprem":
        return ["skiprem"]
    if kind == "cand":
        return ["cand", rng.randrange(64), rng.random() < 0.7, rng.random() < 0.7]
    if kind == "seeds":
        return ["seeds", rng.randrange(64), rng.random() < 0.2]
    if kind == "sets":
        return ["sets", rng.randrange(64)]
    if kind in ("xseeds", "xcand", "xsets", "reclaim", "pickle", "build", "summary"):
        return [kind]
    if kind == "control":
        return [
            "control",
            gen_target(rng),
            rng.choice(["internal", "all"]),
            rng.choice([None, None, 0, 1, 2]),
            rng.randrange(1 << 16) if rng.random() < 0.3 else None,
            rng.random() < 0.7,
            rng.random() < 0.3,
        ]
    raise ValueError(kind)


def gen_history(rng: random.Random, alphabet, length: int, weights=None):
    return [gen_op(rng, rng.choices(alphabet, weights)[0]) for _ in range(length)]


# ------------------------------------------------------------------------------- run time
def resolve_target(ref, sd, spec, rng_seed_salt=0):
    """Symbolic target spec -> named space (never empty)."""
    kind, seed, k = spec
    rng = random.Random(seed)
    n = ref.n
    if kind == "min":
        mins = sorted(ref.min_traps(), key=lambda s: sorted(s.items()))
        sp = dict(mins[seed % len(mins)])
        if not sp:
            kind = "rand"
        else:
            return ref.named(sp)
    if kind == "node":
        spaces = [sd.node_data(i)["space"] for i in sd.node_ids() if sd.node_data(i)["space"]]
        if spaces:
            return dict(spaces[seed % len(spaces)])
        kind = "rand"
    if kind == "state":
        return ref.state_named(seed % ref.N)
    vs = rng.sample(range(n), max(1, min(k, n)))
    return ref.named({v: rng.randint(0, 1) for v in vs})


def _size(sd, lim):
    if lim is None:
        return None
    return max(0, len(sd) + lim[1])


def _node(sd, k):
    if k is None:
        return None
    return k % len(sd)


def norm(x):
    """JSON-able, order-normalised view of a return value."""
    if isinstance(x, dict):
        return {str(k): norm(v) for k, v in sorted(x.items(), key=lambda kv: str(kv[0]))}
    if isinstance(x, (list, tuple)):
        return [norm(v) for v in x]
    if isinstance(x, (int, str, bool, float)) or x is None:
        return x
    if hasattr(x, "items") and hasattr(x, "cardinality"):  # VertexSet
        return sorted(sorted(m.to_named_dict().items()) for m in x.items())
    return repr(x)


def apply_op(sd, op, ref, control_mod=None):
    """Execute one operation.  Returns (sd, result) where result is a JSON-able dict with
    either {"ret": ...} or {"exc": type name, "msg": ...}.  Work-meter aborts propagate."""
    kind = op[0]
    try:
        if kind == "bfs":
            r = sd.expand_bfs(_node(sd, op[1]), op[2], _size(sd, op[3]))
        elif kind == "dfs":
            r = sd.expand_dfs(_node(sd, op[1]), op[2], _size(sd, op[3]))
        elif kind == "min":
            r = sd.expand_minimal_spaces(_node(sd, op[1]), _size(sd, op[2]), op[3])
        elif kind == "attr":
            r = sd.expand_attractor_seeds(_size(sd, op[1]))
        elif kind == "target":
            r = sd.expand_to_target(resolve_target(ref, sd, op[1]), _size(sd, op[2]))
        elif kind == "block":
            r = sd.expand_block(op[1], _size(sd, op[2]), op[3], op[4])
        elif kind == "scc":
            r = sd.expand_scc(op[1])
        elif kind == "succ":
            r = sorted(sd.node_successors(_node(sd, op[1]), compute=True))
        elif kind == "succstub":
            stubs = list(sd.stub_ids())
            r = sorted(sd.node_successors(stubs[op[1] % len(stubs)], compute=True)) if stubs else None
        elif kind == "pn":
            i = _node(sd, op[1])
            sd.node_percolated_petri_net(i, compute=True)
            sd.node_percolated_network(i, compute=True)
            r = None
        elif kind == "skip":
            r = sd.skip_to_minimal(_node(sd, op[1]))
        elif kind == "skiprem":
            r = sd.skip_remaining()
        elif kind == "cand":
            r = sorted(sorted(x.items()) for x in sd.node_attractor_candidates(_node(sd, op[1]), compute=True, greedy_asp_minification=op[2], simulation_minification=op[3]))
        elif kind == "seeds":
            r = [sorted(x.items()) for x in sd.node_attractor_seeds(_node(sd, op[1]), compute=True, symbolic_fallback=op[2])]
        elif kind == "sets":
            r = norm(sd.node_attractor_sets(_node(sd, op[1]), compute=True))
        elif kind == "xseeds":
            r = norm(sd.expanded_attractor_seeds())
        elif kind == "xcand":
            r = {str(k): sorted(sorted(x.items()) for x in v) for k, v in sd.expanded_attractor_candidates().items()}
        elif kind == "xsets":
            r = norm(sd.expanded_attractor_sets())
        elif kind == "reclaim":
            r = sd.reclaim_node_data()
        elif kind == "pickle":
            sd = pickle.loads(pickle.dumps(sd))
            r = None
        elif kind == "build":
            r = sd.build()
        elif kind == "summary":
            r = sd.summary()
        elif kind == "control":
            from biobalm.control import succession_control

            tgt = resolve_target(ref, sd, op[1])
            forb = None
            if op[4] is not None:
                rr = random.Random(op[4])
                forb = set(rr.sample(ref.names, rr.randint(0, max(0, ref.n // 2))))
            iv = succession_control(sd, tgt, strategy=op[2], max_drivers_per_succession_node=op[3], forbidden_drivers=forb, successful_only=op[5], skip_feedforward_successions=op[6])
            r = sorted(repr(i) for i in iv)
        else:
            raise ValueError(f"unknown op {kind}")
        return sd, {"ret": norm(r)}
    except (KeyError, RuntimeError, AssertionError, IndexError, ValueError, TypeError, AttributeError) as e:
        return sd, {"exc": type(e).__name__, "msg": str(e)[:200]}
