"""Independent explicit-state reference model of an asynchronous Boolean network.

No biobalm / AEON / clingo imports.  A state is an int (bit i = variable i), a set of
states is an int used as a 2^n-bit bitset, a space is a dict {var index: 0|1}.

The dynamics are held as two bitsets per variable: U[i] = states where i can move 0->1,
D[i] = states where i can move 1->0.  From update functions these are F&~V and ~F&V; from
a Petri net they are decoded from its transitions (so a net can serve as the definition
of the dynamics as well).
"""
from __future__ import annotations

import itertools

from . import expr as X


def key(space: dict) -> tuple:
    return tuple(sorted(space.items()))


def issub(x: dict, y: dict) -> bool:
    """x is a subspace of y (x fixes everything y fixes, to the same values)."""
    for k, v in y.items():
        if x.get(k) != v:
            return False
    return True


def consistent(x: dict, y: dict) -> bool:
    for k, v in y.items():
        if k in x and x[k] != v:
            return False
    return True


class Ref:
    def __init__(self, names, U, D):
        self.names = list(names)
        self.n = n = len(names)
        self.idx = {nm: i for i, nm in enumerate(names)}
        self.N = 1 << n
        self.ALL = (1 << self.N) - 1
        self.V1 = X.var_masks(n)
        self.V0 = [self.ALL ^ v for v in self.V1]
        self.U = list(U)
        self.D = list(D)
        self.F1 = [U[i] | (self.V1[i] & ~D[i]) for i in range(n)]
        self._traps = None
        self._attr = None

    # ------------------------------------------------------------------ constructors
    @classmethod
    def from_exprs(cls, names, exprs):
        n = len(names)
        ALL = (1 << (1 << n)) - 1
        V1 = X.var_masks(n)
        env = {nm: V1[i] for i, nm in enumerate(names)}
        U, D = [], []
        for i, nm in enumerate(names):
            F = X.ev_bits(exprs[nm], env, ALL)
            U.append(F & (ALL ^ V1[i]))
            D.append((ALL ^ F) & V1[i])
        return cls(names, U, D)

    @classmethod
    def from_petri_net(cls, pn, names=None):
        """Decode a biobalm-style Petri net (networkx DiGraph) into up/down sets.

        A transition with attribute change=x, direction=up|down is enabled in a state iff
        every pre-place b1_y / b0_y is marked (y=1 / y=0).  Variables are the b0_* places.
        Returns (ref, problems) where problems lists structural oddities (e.g. a transition
        writing to a context place).
        """
        problems = []
        if names is None:
            names = sorted(str(p)[3:] for p in pn.nodes if str(p).startswith("b0_"))
        n = len(names)
        idx = {nm: i for i, nm in enumerate(names)}
        ALL = (1 << (1 << n)) - 1
        V1 = X.var_masks(n)
        U = [0] * n
        D = [0] * n
        for node, data in pn.nodes(data=True):
            if data.get("kind") != "transition":
                continue
            x = data["change"]
            up = data["direction"] == "up"
            if x not in idx:
                problems.append(f"transition {node} changes unknown variable {x}")
                continue
            pre = set(pn.predecessors(node))
            post = set(pn.successors(node))
            src = ("b0_" if up else "b1_") + x
            dst = ("b1_" if up else "b0_") + x
            if src not in pre or dst not in post:
                problems.append(f"transition {node} does not move {x} {data['direction']}")
            if (pre - {src}) != (post - {dst}):
                problems.append(f"transition {node} does not preserve its context places")
            b = ALL
            for p in pre:
                p = str(p)
                v = p[3:]
                if v not in idx:
                    problems.append(f"transition {node} reads unknown place {p}")
                    b = 0
                    break
                b &= V1[idx[v]] if p.startswith("b1_") else (ALL ^ V1[idx[v]])
            if up:
                U[idx[x]] |= b
            else:
                D[idx[x]] |= b
        return cls(names, U, D), problems

    def override(self, fixed: dict) -> "Ref":
        """The network with f_v := const for v in fixed (control override)."""
        U, D = list(self.U), list(self.D)
        for i, v in fixed.items():
            if v:
                U[i] = self.V0[i]
                D[i] = 0
            else:
                U[i] = 0
                D[i] = self.V1[i]
        return Ref(self.names, U, D)

    # ------------------------------------------------------------------ spaces
    def sp(self, named: dict) -> dict:
        return {self.idx[k]: int(v) for k, v in named.items()}

    def named(self, space: dict) -> dict:
        return {self.names[i]: v for i, v in sorted(space.items())}

    def state_of(self, named: dict) -> int:
        s = 0
        for k, v in named.items():
            if v:
                s |= 1 << self.idx[k]
        return s

    def state_named(self, s: int) -> dict:
        return {nm: (s >> i) & 1 for i, nm in enumerate(self.names)}

    def sub(self, space: dict) -> int:
        b = self.ALL
        for i, v in space.items():
            b &= self.V1[i] if v else self.V0[i]
        return b

    def states(self, bits: int) -> list[int]:
        out = []
        while bits:
            low = bits & -bits
            out.append(low.bit_length() - 1)
            bits ^= low
        return out

    def const_on(self, i: int, S: int):
        if S & ~self.F1[i] == 0:
            return 1
        if S & self.F1[i] == 0:
            return 0
        return None

    def hull(self, S: int) -> dict:
        sp = {}
        for i in range(self.n):
            if S & self.V0[i] == 0:
                sp[i] = 1
            elif S & self.V1[i] == 0:
                sp[i] = 0
        return sp

    # ------------------------------------------------------------------ percolation
    def percolate(self, space: dict) -> dict:
        sp = dict(space)
        changed = True
        while changed:
            changed = False
            S = self.sub(sp)
            for i in range(self.n):
                if i in sp:
                    continue
                c = self.const_on(i, S)
                if c is not None:
                    sp[i] = c
                    changed = True
                    S = self.sub(sp)
        return sp

    def percolate_strict(self, space: dict) -> dict:
        """Variables (with their values) newly derived when propagation starts from the
        given values only; variables with constant update functions are skipped; a given
        variable whose function is determined to the *opposite* value is dropped, one that
        is determined to its own value is reported."""
        R = dict(space)
        result = {}
        cand = [i for i in range(self.n) if self.F1[i] not in (0, self.ALL)]
        changed = True
        while changed:
            changed = False
            for i in list(cand):
                c = self.const_on(i, self.sub(R))
                if c is None:
                    continue
                cand.remove(i)
                if i in R and R[i] != c:
                    continue
                R[i] = c
                result[i] = c
                changed = True
        return result

    # ------------------------------------------------------------------ trap spaces
    def is_trap(self, space: dict) -> bool:
        S = self.sub(space)
        for i, v in space.items():
            if (S & (self.D[i] if v else self.U[i])) != 0:
                return False
        return True

    def is_trap_rev(self, space: dict) -> bool:
        """Trap space of the time-reversed transition graph: no transition enters it."""
        for i, v in space.items():
            fl = dict(space)
            fl[i] = 1 - v
            S = self.sub(fl)
            if (S & (self.U[i] if v else self.D[i])) != 0:
                return False
        return True

    def all_spaces(self, within: dict | None = None):
        within = within or {}
        free = [i for i in range(self.n) if i not in within]
        for tern in itertools.product((None, 0, 1), repeat=len(free)):
            sp = dict(within)
            for i, v in zip(free, tern):
                if v is not None:
                    sp[i] = v
            yield sp

    def all_traps(self) -> list[dict]:
        if self._traps is None:
            self._traps = [sp for sp in self.all_spaces() if self.is_trap(sp)]
        return self._traps

    @staticmethod
    def minimal(spaces: list[dict]) -> list[dict]:
        return [s for s in spaces if not any(u is not s and u != s and issub(u, s) for u in spaces)]

    @staticmethod
    def maximal(spaces: list[dict]) -> list[dict]:
        return [s for s in spaces if not any(u is not s and u != s and issub(s, u) for u in spaces)]

    def min_traps(self) -> list[dict]:
        return self.minimal(self.all_traps())

    def sources(self) -> list[int]:
        return [i for i in range(self.n) if self.U[i] == 0 and self.D[i] == 0]

    def trap_closure(self, S: int) -> dict:
        """Smallest trap space containing the state set S."""
        sp = self.hull(S)
        while True:
            R = self.fwd(self.sub(sp))
            sp2 = self.hull(R)
            if sp2 == sp:
                return sp
            sp = sp2

    # ------------------------------------------------------------------ transition graph
    def post(self, S: int) -> int:
        out = 0
        for i in range(self.n):
            sh = 1 << i
            out |= (S & self.U[i]) << sh
            out |= (S & self.D[i]) >> sh
        return out

    def pre(self, S: int) -> int:
        out = 0
        for i in range(self.n):
            sh = 1 << i
            out |= ((S & self.V1[i]) >> sh) & self.U[i]
            out |= ((S & self.V0[i]) << sh) & self.D[i]
        return out

    def fwd(self, S: int) -> int:
        while True:
            S2 = S | self.post(S)
            if S2 == S:
                return S
            S = S2

    def bwd(self, S: int) -> int:
        while True:
            S2 = S | self.pre(S)
            if S2 == S:
                return S
            S = S2

    def attractors(self) -> list[int]:
        """Terminal SCCs of the asynchronous transition graph, as bitsets."""
        if self._attr is not None:
            return self._attr
        res = []
        remaining = self.ALL
        while remaining:
            low = remaining & -remaining
            # walk forward layer by layer and take a pivot from the last new layer: its
            # backward closure contains `low`, so every round removes at least one state,
            # and usually a whole basin.
            seen = low
            frontier = low
            while True:
                nxt = self.post(frontier) & ~seen
                if not nxt:
                    break
                seen |= nxt
                frontier = nxt
            pivot = frontier & -frontier
            F = self.fwd(pivot)
            B = self.bwd(pivot)
            if F & ~B == 0:
                res.append(F)
            remaining &= ~B
        self._attr = sorted(res)
        return self._attr

    def attractor_of(self, s: int):
        for a in self.attractors():
            if (a >> s) & 1:
                return a
        return None

    def attractors_reachable_from(self, S: int) -> list[int]:
        R = self.fwd(S)
        return [a for a in self.attractors() if a & R]

    def deadlocks_reduced(self, retained: dict) -> int:
        """States with no enabled transition once transitions moving a retained variable
        away from its retained value are removed."""
        dead = self.ALL
        for i in range(self.n):
            U, D = self.U[i], self.D[i]
            if i in retained:
                if retained[i]:
                    D = 0
                else:
                    U = 0
            dead &= ~(U | D)
        return dead & self.ALL

    # ------------------------------------------------------------------ succession diagram
    def succession_diagram(self):
        """Reference succession diagram.

        Returns (root_key, nodes{key: space}, edges{(pkey, ckey): [motif spaces]}, mins[list of spaces]).
        Children of a node = percolations of the inclusion-maximal trap spaces strictly
        inside it (at the root: among those fixing every source variable).
        """
        traps = self.all_traps()
        sources = self.sources()
        root = self.percolate({})
        rk = key(root)
        nodes = {rk: root}
        edges = {}
        todo = [root]
        while todo:
            N = todo.pop()
            inside = [t for t in traps if t != N and issub(t, N)]
            if key(N) == rk:
                inside = [t for t in inside if all(s in t for s in sources)]
            for m in self.maximal(inside):
                c = self.percolate(m)
                ck = key(c)
                if ck not in nodes:
                    nodes[ck] = c
                    todo.append(c)
                edges.setdefault((key(N), ck), []).append(m)
        return rk, nodes, edges, self.min_traps()

    def children_of(self, node: dict, is_root: bool):
        """{child key: [motifs]} for one node (without building the whole diagram)."""
        traps = self.all_traps()
        inside = [t for t in traps if t != node and issub(t, node)]
        if is_root:
            src = self.sources()
            inside = [t for t in inside if all(s in t for s in src)]
        out = {}
        for m in self.maximal(inside):
            out.setdefault(key(self.percolate(m)), []).append(m)
        return out

    # ------------------------------------------------------------------ classification helpers
    def attractor_in_space(self, a: int, space: dict) -> bool:
        return a & ~self.sub(space) == 0

    def has_maa(self) -> bool:
        mins = self.min_traps()
        return any(not any(self.attractor_in_space(a, m) for m in mins) for a in self.attractors())

    def canon_hash(self) -> str:
        import hashlib

        h = hashlib.sha1()
        h.update(repr((self.n, self.U, self.D)).encode())
        return h.hexdigest()[:16]
