"""Boolean expression ASTs owned by the harness (no biobalm / AEON imports).

AST (JSON friendly lists):  ["c", 0|1] | ["v", name] | ["!", e] | ["&", a, b] | ["|", a, b]
                             | ["^", a, b] | ["=>", a, b] | ["<=>", a, b]

 * `parse`   : text -> AST, AEON operator precedence (! > ^ > & > | > => > <=>)
 * `emit`    : AST -> fully parenthesised text (so no precedence question arises when
               AEON parses what we emit)
 * `ev_bits` : evaluate on bitsets (one big int per variable = set of states where it is 1)
 * `ev_state`: evaluate on a single assignment (dict name -> 0/1)
"""
from __future__ import annotations

import re

_TOK = re.compile(r"\s*(?:(<=>|=>|[!&|^()])|([A-Za-z0-9_\[\]{}.]+))")


def parse(text: str):
    toks: list[tuple[str, str]] = []
    pos = 0
    text = text.strip()
    while pos < len(text):
        m = _TOK.match(text, pos)
        if not m:
            raise ValueError(f"bad token at {text[pos:pos + 20]!r}")
        pos = m.end()
        if m.group(1):
            toks.append(("op", m.group(1)))
        else:
            toks.append(("id", m.group(2)))
    i = [0]

    def peek():
        return toks[i[0]][1] if i[0] < len(toks) and toks[i[0]][0] == "op" else None

    def iff():
        l = imp()
        while peek() == "<=>":
            i[0] += 1
            l = ["<=>", l, imp()]
        return l

    def imp():
        l = orx()
        if peek() == "=>":
            i[0] += 1
            return ["=>", l, imp()]  # right associative
        return l

    def orx():
        l = andx()
        while peek() == "|":
            i[0] += 1
            l = ["|", l, andx()]
        return l

    def andx():
        l = xorx()
        while peek() == "&":
            i[0] += 1
            l = ["&", l, xorx()]
        return l

    def xorx():
        l = notx()
        while peek() == "^":
            i[0] += 1
            l = ["^", l, notx()]
        return l

    def notx():
        if i[0] >= len(toks):
            raise ValueError("unexpected end")
        kind, val = toks[i[0]]
        if kind == "op" and val == "!":
            i[0] += 1
            return ["!", notx()]
        if kind == "op" and val == "(":
            i[0] += 1
            e = iff()
            if peek() != ")":
                raise ValueError("expected )")
            i[0] += 1
            return e
        if kind == "id":
            i[0] += 1
            if val == "true":
                return ["c", 1]
            if val == "false":
                return ["c", 0]
            return ["v", val]
        raise ValueError(f"unexpected token {val!r}")

    e = iff()
    if i[0] != len(toks):
        raise ValueError("trailing tokens")
    return e


def emit(e) -> str:
    k = e[0]
    if k == "c":
        return "true" if e[1] else "false"
    if k == "v":
        return e[1]
    if k == "!":
        return "!" + emit(e[1]) if e[1][0] in ("v", "c") else "!(" + emit(e[1]) + ")"
    return "(" + emit(e[1]) + " " + k + " " + emit(e[2]) + ")"


def support(e, acc=None) -> set:
    if acc is None:
        acc = set()
    k = e[0]
    if k == "v":
        acc.add(e[1])
    elif k == "!":
        support(e[1], acc)
    elif k != "c":
        support(e[1], acc)
        support(e[2], acc)
    return acc


def ev_bits(e, env: dict, ALL: int) -> int:
    k = e[0]
    if k == "c":
        return ALL if e[1] else 0
    if k == "v":
        return env[e[1]]
    if k == "!":
        return ALL ^ ev_bits(e[1], env, ALL)
    a = ev_bits(e[1], env, ALL)
    b = ev_bits(e[2], env, ALL)
    if k == "&":
        return a & b
    if k == "|":
        return a | b
    if k == "^":
        return a ^ b
    if k == "=>":
        return (ALL ^ a) | b
    if k == "<=>":
        return ALL ^ (a ^ b)
    raise ValueError(k)


def ev_state(e, st: dict) -> int:
    k = e[0]
    if k == "c":
        return int(e[1])
    if k == "v":
        return st[e[1]]
    if k == "!":
        return 1 - ev_state(e[1], st)
    a = ev_state(e[1], st)
    b = ev_state(e[2], st)
    if k == "&":
        return a & b
    if k == "|":
        return a | b
    if k == "^":
        return a ^ b
    if k == "=>":
        return (1 - a) | b
    if k == "<=>":
        return 1 - (a ^ b)
    raise ValueError(k)


def var_masks(k: int) -> list[int]:
    """Bitsets over the 2^k assignments: mask j has bit s set iff bit j of s is 1."""
    N = 1 << k
    out = []
    for j in range(k):
        half = 1 << j
        cur = ((1 << half) - 1) << half  # 2^j zeros then 2^j ones
        curlen = half * 2
        while curlen < N:
            cur |= cur << curlen
            curlen *= 2
        out.append(cur)
    return out


def tt_to_expr(regs: list[str], tt: list[int]):
    """Truth table (index bit j = value of regs[j]) -> canonical DNF AST."""
    if all(tt):
        return ["c", 1]
    if not any(tt):
        return ["c", 0]
    terms = []
    for idx, v in enumerate(tt):
        if not v:
            continue
        lits = []
        for j, r in enumerate(regs):
            lits.append(["v", r] if (idx >> j) & 1 else ["!", ["v", r]])
        t = lits[0]
        for l in lits[1:]:
            t = ["&", t, l]
        terms.append(t)
    e = terms[0]
    for t in terms[1:]:
        e = ["|", e, t]
    return e


def to_bnet(names: list[str], exprs: dict) -> str:
    return "\n".join(f"{n}, {emit(exprs[n])}" for n in names) + "\n"


def parse_bnet(text: str):
    names, exprs = [], {}
    for line in text.splitlines():
        line = line.strip()
        if not line or line.startswith("#"):
            continue
        name, rhs = line.split(",", 1)
        name = name.strip()
        if name.lower() == "targets" and rhs.strip().lower() == "factors":
            continue
        names.append(name)
        exprs[name] = parse(rhs)
    return names, exprs
