"""Network generators.  A network is {"names": [...], "exprs": {name: AST}, "cls": str}.

Everything is driven by a `random.Random` passed in; nothing here imports biobalm.
"""
from __future__ import annotations

import os
import random

from . import expr as X

MODELS_DIR = "/repo/models/bbm-bnet-inputs-true"


def V(n):
    return ["v", n]


def NOT(e):
    return ["!", e]


def AND(*es):
    e = es[0]
    for f in es[1:]:
        e = ["&", e, f]
    return e


def OR(*es):
    e = es[0]
    for f in es[1:]:
        e = ["|", e, f]
    return e


def net(names, exprs, cls):
    return {"names": list(names), "exprs": dict(exprs), "cls": cls}


# ----------------------------------------------------------------------------- basic classes
def rand_net(rng: random.Random, n: int, maxk: int = 3, cls="rand"):
    names = [f"x{i}" for i in range(n)]
    exprs = {}
    for i in range(n):
        k = rng.randint(1, max(1, min(maxk, n)))
        regs = sorted(rng.sample(range(n), k))
        tt = [rng.randint(0, 1) for _ in range(2 ** k)]
        exprs[names[i]] = X.tt_to_expr([names[r] for r in regs], tt)
    return net(names, exprs, cls)


def dense_neg(rng: random.Random, n: int):
    """Every variable regulates itself; biased to negative / non-monotonic self loops, so
    that the negative feedback vertex set tends to contain every variable."""
    names = [f"d{i}" for i in range(n)]
    exprs = {}
    for i in range(n):
        others = [j for j in range(n) if j != i]
        k = rng.randint(0, min(2, len(others)))
        regs = sorted([i] + rng.sample(others, k))
        pos = regs.index(i)
        tt = [rng.randint(0, 1) for _ in range(2 ** len(regs))]
        # make the self-dependence negative for at least one context
        ctx = rng.randrange(2 ** len(regs))
        lo = ctx & ~(1 << pos)
        hi = ctx | (1 << pos)
        tt[lo], tt[hi] = 1, 0
        exprs[names[i]] = X.tt_to_expr([names[r] for r in regs], tt)
    return net(names, exprs, "dense-neg")


def exh2(index: int):
    """All 256 two-variable networks: function of a = index & 15, of b = index >> 4."""
    names = ["a", "b"]
    fa = [(index >> j) & 1 for j in range(4)]
    fb = [(index >> (4 + j)) & 1 for j in range(4)]
    return net(names, {"a": X.tt_to_expr(names, fa), "b": X.tt_to_expr(names, fb)}, "exh2")


# ----------------------------------------------------------------------------- gadgets
def _mod_switch(p):
    a, b = p + "a", p + "b"
    return [a, b], {a: V(b), b: V(a)}


def _mod_inhib(p):
    a, b = p + "a", p + "b"
    return [a, b], {a: NOT(V(b)), b: NOT(V(a))}


def _mod_osc1(p):
    a = p + "o"
    return [a], {a: NOT(V(a))}


def _mod_osc2(p):
    a, b = p + "a", p + "b"
    return [a, b], {a: NOT(V(b)), b: V(a)}


def _mod_maa1(p):
    a, b, c = p + "a", p + "b", p + "c"
    f = OR(AND(NOT(V(a)), NOT(V(b))), V(c))
    return [a, b, c], {a: f, b: f, c: AND(V(a), V(b))}


def _mod_maa2(p):
    a, b, c = p + "a", p + "b", p + "c"
    t = AND(V(a), V(b), V(c))
    return [a, b, c], {a: OR(NOT(V(c)), t), b: OR(NOT(V(a)), t), c: OR(NOT(V(b)), t)}


def _mod_source(p):
    a = p + "i"
    return [a], {a: V(a)}


def _mod_const(p, val):
    a = p + "k"
    return [a], {a: ["c", val]}


def _mod_xor(p):
    a, b = p + "a", p + "b"
    return [a, b], {a: ["^", V(a), V(b)], b: V(a)}


def _mod_selfpos(p):
    a = p + "s"
    return [a], {a: V(a)}


def _mod_ladder(p, k=3):
    """a1 -> a1&a2 -> ... -> all, plus a shortcut: the motif {a_k, a_(k-1)} percolates straight to 'all'
    (nodes that are first discovered through a short path and later through a longer one)."""
    vs = [f"{p}l{i}" for i in range(k)]
    top = vs[-1]
    fs = {vs[0]: OR(V(vs[0]), V(top))}
    for i in range(1, k - 1):
        fs[vs[i]] = OR(AND(V(vs[i]), V(vs[i - 1])), V(top))
    fs[top] = AND(V(top), V(vs[-2]))
    return vs, fs


def _mod_ladder4(p):
    return _mod_ladder(p, 4)


def _mod_implied(p):
    """r latch and p := p | r: the trap spaces {p=1} and {p=1,r=1} below any node form a triangle with it."""
    r, q = p + "r", p + "p"
    return [r, q], {r: V(r), q: OR(V(q), V(r))}


MODULES = [
    ("switch", _mod_switch, 4),
    ("inhib", _mod_inhib, 2),
    ("osc1", _mod_osc1, 2),
    ("osc2", _mod_osc2, 2),
    ("maa1", _mod_maa1, 4),
    ("maa2", _mod_maa2, 3),
    ("source", _mod_source, 2),
    ("xor", _mod_xor, 1),
    ("latch", _mod_selfpos, 3),
    ("implied", _mod_implied, 2),
    ("ladder", _mod_ladder, 2),
    ("ladder4", _mod_ladder4, 1),
]


def gadget_net(rng: random.Random, max_vars: int = 8, rename=True):
    """Random DAG of small modules; downstream modules are gated by literals of upstream
    modules.  Produces motif-avoidant attractors that exist only in some trap spaces,
    conditional motifs, shared children (DAG not tree)."""
    names: list[str] = []
    exprs: dict = {}
    mods = []
    weights = [w for _, _, w in MODULES]
    while True:
        kind, fn, _ = rng.choices(MODULES, weights)[0]
        p = f"m{len(mods)}"
        if kind == "source" and rng.random() < 0.3:
            vs, fs = _mod_const(p, rng.randint(0, 1))
        else:
            vs, fs = fn(p)
        if len(names) + len(vs) > max_vars:
            if mods:
                break
            continue
        # gate on earlier variables
        if names and rng.random() < 0.7:
            ngates = rng.choice([1, 1, 2])
            gates = []
            for g in rng.sample(names, min(ngates, len(names))):
                gates.append(V(g) if rng.random() < 0.7 else NOT(V(g)))
            style = rng.choice(["and", "and", "or", "mixed"])
            for v in vs:
                f = fs[v]
                if kind in ("source",):
                    continue
                st = style if style != "mixed" else rng.choice(["and", "or", "none"])
                if st == "and":
                    fs[v] = AND(f, *gates)
                elif st == "or":
                    fs[v] = OR(f, *[NOT(g) for g in gates])
        names += vs
        exprs.update(fs)
        mods.append(kind)
        if len(names) >= max_vars or (len(mods) >= 2 and rng.random() < 0.25):
            break
    n = net(names, exprs, "gadget")
    n["mods"] = mods
    if rename:
        n = rename_net(rng, n)
        n["mods"] = mods
    return n


def rings_net(rng: random.Random, nmax: int = 7):
    """Two or three negative feedback rings (repressilators, some with the 'all-on' escape
    clause of the MAA gadget) coupled by a few gating literals: long transients and
    quasi-attractors that random-walk pruning does not leave."""
    names, exprs = [], {}
    rings = []
    while len(names) < nmax - 1 and len(rings) < 3:
        k = rng.choice([2, 3, 3, 3])
        if len(names) + k > nmax:
            break
        p = f"r{len(rings)}"
        vs = [f"{p}{chr(97 + i)}" for i in range(k)]
        esc = rng.random() < 0.5 and k == 3
        allon = AND(*[V(v) for v in vs])
        for i, v in enumerate(vs):
            f = NOT(V(vs[(i - 1) % k]))
            if esc:
                f = OR(f, allon)
            exprs[v] = f
        names += vs
        rings.append(vs)
    for _ in range(rng.randint(1, 3)):
        if len(rings) < 2:
            break
        a, b = rng.sample(range(len(rings)), 2)
        tgt = rng.choice(rings[a])
        g = V(rng.choice(rings[b]))
        if rng.random() < 0.5:
            g = NOT(g)
        exprs[tgt] = AND(exprs[tgt], g) if rng.random() < 0.5 else OR(exprs[tgt], g)
    return rename_net(rng, net(names, exprs, "rings"))


def maa_chain(rng: random.Random, k: int = 15):
    """A motif-avoidant gadget driving a chain of k buffer variables (17-23 variables): large percolated
    networks whose only attractor outside the minimal trap space is motif-avoidant. No explicit oracle is
    possible at this size; used by the termination check only."""
    vs, fs = (_mod_maa1 if rng.random() < 0.5 else _mod_maa2)("g")
    names = list(vs)
    exprs = dict(fs)
    prev = rng.choice(vs)
    for i in range(k):
        c = f"ch{i:02d}"
        exprs[c] = V(prev) if rng.random() < 0.8 else NOT(V(prev))
        names.append(c)
        prev = c
    return net(names, exprs, "maa-chain")


def cond_maa(rng: random.Random, nmax: int = 7):
    """A motif-avoidant gadget whose behaviour depends on an input or a switch through one extra clause on one of
    its variables (same variables and often the same stable motifs under both input values, different dynamics):
    verdicts such as "this block has no motif-avoidant attractor" must not be shared between input valuations."""
    vs, fs = (_mod_maa1 if rng.random() < 0.6 else _mod_maa2)("g")
    names, exprs = [], {}
    if rng.random() < 0.6:
        names.append("s")
        exprs["s"] = V("s")
        ctl = "s"
    else:
        names += ["p", "q"]
        exprs["p"], exprs["q"] = V("q"), V("p")
        ctl = "p"
    lit = V(ctl) if rng.random() < 0.5 else NOT(V(ctl))
    tgt = rng.choice(vs)
    pat = [V(v) if rng.random() < 0.5 else NOT(V(v)) for v in rng.sample(vs, rng.randint(1, len(vs)))]
    clause = AND(lit, *pat)
    fs[tgt] = OR(fs[tgt], clause) if rng.random() < 0.6 else AND(fs[tgt], OR(NOT(lit), *pat))
    names += vs
    exprs.update(fs)
    while len(names) < nmax - 1 and rng.random() < 0.5:
        k = f"e{len(names)}"
        src = rng.choice(names)
        exprs[k] = rng.choice([V(src), NOT(V(src)), AND(V(k), V(src)), OR(V(k), V(src))])
        names.append(k)
    return rename_net(rng, net(names, exprs, "cond-maa"))


def overlap_maa(rng: random.Random, rename=True, variant=None):
    """Two independent switches p, a; a third switch b available only under p; an MAA
    gadget gated by p & a & b.  Structure on which skip-node pruning by intersections is
    delicate."""
    if variant is None:
        variant = rng.randint(0, 3)
    P1, P2, A1, A2, B1, B2, Xv, Yv, Zv = "P1", "P2", "A1", "A2", "B1", "B2", "X", "Y", "Z"
    gate = AND(V(P1), V(A1), V(B1))
    if variant % 2 == 0:
        f = AND(OR(AND(NOT(V(Xv)), NOT(V(Yv))), V(Zv)), gate)
        ex = {Xv: f, Yv: f, Zv: AND(V(Xv), V(Yv), gate)}
    else:
        t = AND(V(Xv), V(Yv), V(Zv))
        ex = {
            Xv: AND(OR(NOT(V(Zv)), t), gate),
            Yv: AND(OR(NOT(V(Xv)), t), gate),
            Zv: AND(OR(NOT(V(Yv)), t), gate),
        }
    exprs = {
        P1: V(P2),
        P2: V(P1),
        A1: V(A2),
        A2: V(A1),
        B1: AND(V(B2), V(P1)),
        B2: AND(V(B1), V(P1)),
    }
    exprs.update(ex)
    names = [P1, P2, A1, A2, B1, B2, Xv, Yv, Zv]
    if variant >= 2:
        # a cheaper 7-variable version: single-variable switches p, a
        names = [P1, A1, B1, B2, Xv, Yv, Zv]
        exprs[P1] = V(P1)
        exprs[A1] = V(A1)
        del exprs[P2], exprs[A2]
    n = net(names, exprs, "overlap-maa")
    if rename:
        n = rename_net(rng, n)
    return n


# ----------------------------------------------------------------------------- transformations
def _subst(e, m):
    k = e[0]
    if k == "c":
        return e
    if k == "v":
        return ["v", m[e[1]]]
    if k == "!":
        return ["!", _subst(e[1], m)]
    return [k, _subst(e[1], m), _subst(e[2], m)]


def rename_net(rng: random.Random, n, mapping=None):
    if mapping is None:
        pool = []
        while len(pool) < len(n["names"]):
            c = rng.choice("abcdefghijklmnopqrstuvwxyzABCDEFGHIJKLMNOPQRSTUVWXYZ") + "".join(
                rng.choice("abcdefghijklmnopqrstuvwxyz0123456789_") for _ in range(rng.randint(0, 3))
            )
            if c not in pool and c.lower() not in ("true", "false", "targets", "factors"):
                pool.append(c)
        mapping = dict(zip(n["names"], pool))
    out = net(
        [mapping[x] for x in n["names"]],
        {mapping[x]: _subst(n["exprs"][x], mapping) for x in n["names"]},
        n["cls"],
    )
    out["renamed_from"] = {v: k for k, v in mapping.items()}
    return out


def identity_form(rng: random.Random, v: str, names):
    """An update function that is semantically the identity on v, written in one of several
    ways (source detection must be semantic, not syntactic)."""
    x = V(v)
    others = [n for n in names if n != v]
    y = V(rng.choice(others)) if others else x
    forms = [
        x,
        x,
        x,
        AND(x, x),
        NOT(NOT(x)),
        OR(x, AND(x, y)),
        OR(AND(x, y), AND(x, NOT(y))),
        AND(x, OR(x, y)),
        ["<=>", x, ["c", 1]],
    ]
    return rng.choice(forms)


def with_inputs(rng: random.Random, n, k: int):
    """Turn k random variables into sources (x, x)."""
    names = list(n["names"])
    exprs = dict(n["exprs"])
    for v in rng.sample(names, min(k, len(names))):
        exprs[v] = identity_form(rng, v, names)
    out = net(names, exprs, n["cls"] + "+inputs")
    return out


def union(n1, n2, p1="L_", p2="R_"):
    m1 = {x: p1 + x for x in n1["names"]}
    m2 = {x: p2 + x for x in n2["names"]}
    names = [m1[x] for x in n1["names"]] + [m2[x] for x in n2["names"]]
    exprs = {m1[x]: _subst(n1["exprs"][x], m1) for x in n1["names"]}
    exprs.update({m2[x]: _subst(n2["exprs"][x], m2) for x in n2["names"]})
    return net(names, exprs, "union")


def fix_vars(n, valuation: dict):
    exprs = dict(n["exprs"])
    for v, b in valuation.items():
        exprs[v] = ["c", int(b)]
    return net(n["names"], exprs, n["cls"] + "+fixed")


# ----------------------------------------------------------------------------- repository models
_MODEL_CACHE: dict = {}


def model_files():
    return sorted(f for f in os.listdir(MODELS_DIR) if f.endswith(".bnet"))


def model_net(fname: str):
    if fname not in _MODEL_CACHE:
        with open(os.path.join(MODELS_DIR, fname)) as fh:
            names, exprs = X.parse_bnet(fh.read())
        _MODEL_CACHE[fname] = net(names, exprs, "model:" + fname)
    m = _MODEL_CACHE[fname]
    return net(m["names"], m["exprs"], m["cls"])


_SIZES = None


def model_sizes():
    global _SIZES
    if _SIZES is None:
        _SIZES = {}
        for f in model_files():
            with open(os.path.join(MODELS_DIR, f)) as fh:
                _SIZES[f] = sum(
                    1
                    for l in fh
                    if l.strip() and not l.startswith("#") and not l.lower().startswith("targets")
                )
    return _SIZES


def models_up_to(nmax: int):
    return [f for f, k in sorted(model_sizes().items()) if k <= nmax]


# ----------------------------------------------------------------------------- mixtures
def draw(rng: random.Random, classes, nmax: int):
    """Draw one network from a weighted class list [(name, weight), ...]."""
    cls = rng.choices([c for c, _ in classes], [w for _, w in classes])[0]
    if cls == "rand":
        return rand_net(rng, rng.randint(1, nmax), maxk=3)
    if cls == "rand-wide":
        n = rng.randint(2, min(nmax, 5))
        return rand_net(rng, n, maxk=n, cls="rand-wide")
    if cls == "dense-neg":
        return dense_neg(rng, rng.randint(1, min(nmax, 6)))
    if cls == "gadget":
        return gadget_net(rng, max_vars=rng.randint(3, nmax))
    if cls == "overlap-maa":
        if nmax < 7:
            return gadget_net(rng, max_vars=max(3, nmax))
        return overlap_maa(rng, variant=None if nmax >= 9 else rng.choice([2, 3]))
    if cls == "cond-maa":
        return cond_maa(rng, max(5, nmax))
    if cls == "rings":
        return rings_net(rng, max(4, nmax))
    if cls == "inputs":
        base = draw(rng, [("rand", 2), ("gadget", 2)], nmax)
        return with_inputs(rng, base, rng.randint(1, 2))
    if cls == "exh2":
        return exh2(rng.randrange(256))
    if cls == "model":
        return model_net(rng.choice(models_up_to(nmax)))
    raise ValueError(cls)


def corpus():
    import json

    path = os.path.join(os.path.dirname(__file__), "corpus.jsonl")
    out = []
    if os.path.exists(path):
        with open(path) as fh:
            for line in fh:
                line = line.strip()
                if line and not line.startswith("#"):
                    d = json.loads(line)
                    if "bnet" in d:
                        names, exprs = X.parse_bnet(d["bnet"])
                        d = net(names, exprs, "corpus:" + d.get("name", "?"))
                    out.append(d)
    return out
