"""C17 — results do not depend on how the network is written down."""
from __future__ import annotations

import random

from .. import gen
from .. import expr as X
from .common import Res, Watch, net_hash, rules_text

LEVEL = "exploration"
RULE = (
    "per network 6 presentation-level transformations out of: variable renaming that changes the sort order, "
    "declaration reordering, each function rewritten as canonical DNF / CNF / redundant (f&x)|(f&!x) / double negation, "
    "one variable replaced by its negation, the same network loaded from bnet vs aeon vs sbml text, and names that need "
    "sanitising (brackets, braces, dots, clashes after sanitising) pushed through sanitize_network_names. The fully "
    "expanded diagram (nodes, edges, motif sets), the minimal trap spaces and the attractor sets of the transformed "
    "network, mapped back through the transformation, must equal those of the original; is_isomorphic is asserted "
    "where names coincide; sanitised names must match ^[a-zA-Z0-9_]+$, be distinct and keep the function semantics. "
    "Also self-checks the harness' own expression evaluator against AEON's BDD of every update function on all states. "
    "non-trivial = original diagram >= 3 nodes or a complex attractor; distinct by rules+transformation"
)
ASSUMPTIONS = ["reference model vf/ref.py validates that each transformation preserves the dynamics (a failing self-check makes the case oracle-inconclusive)", "AEON's to_sbml is the sbml writer"]
DEADLINE = 300
TRANSFORMS = ["rename", "reorder", "dnf", "cnf", "redundant", "dneg", "negvar", "fmt-aeon", "fmt-sbml", "sanitize", "implies"]


def cases(tier, seed):
    rng = random.Random(f"C17/{seed}")
    nmax, count = (7, 2000) if tier == "quick" else (8, 15000)
    cl = [("rand", 4), ("gadget", 4), ("inputs", 3), ("dense-neg", 1), ("rand-wide", 1), ("overlap-maa", 0.2)]
    nets = gen.corpus() + [gen.draw(rng, cl, nmax) for _ in range(count)] + [gen.model_net(f) for f in gen.models_up_to(9 if tier == "quick" else 12)]
    return [{"net": n, "cls": n["cls"], "transforms": rng.sample(TRANSFORMS, 6), "rs": rng.randrange(1 << 30)} for n in nets]


def gate(agg):
    c = agg["cnt"]
    need = ["pairs_compared", "evaluator_selfchecks", "heuristic_diagrams_compared", "build_results_compared"] + [f"t:{t}" for t in TRANSFORMS] + ["sanitize_clashes", "attractor_sets_compared"]
    return [f"monitor counter {k} is zero" for k in need if c.get(k, 0) == 0]


# ------------------------------------------------------------------------------- transformations (AST level)
def _tt(e, sup):
    k = len(sup)
    ALL = (1 << (1 << k)) - 1
    env = dict(zip(sup, X.var_masks(k)))
    F = X.ev_bits(e, env, ALL)
    return [(F >> i) & 1 for i in range(1 << k)]


def t_dnf(e):
    sup = sorted(X.support(e))
    if not sup:
        return e
    return X.tt_to_expr(sup, _tt(e, sup))


def t_cnf(e):
    sup = sorted(X.support(e))
    if not sup:
        return e
    tt = _tt(e, sup)
    if all(tt):
        return ["c", 1]
    clauses = []
    for idx, v in enumerate(tt):
        if v:
            continue
        lits = [["!", ["v", r]] if (idx >> j) & 1 else ["v", r] for j, r in enumerate(sup)]
        c = lits[0]
        for l in lits[1:]:
            c = ["|", c, l]
        clauses.append(c)
    out = clauses[0]
    for c in clauses[1:]:
        out = ["&", out, c]
    return out


def t_implies(e):
    """rewrite a|b as (!a => b) and a&b as !(a => !b) at the top level (operators AEON parses but bnet files rarely use)"""
    if e[0] == "|":
        return ["=>", ["!", e[1]], e[2]]
    if e[0] == "&":
        return ["!", ["=>", e[1], ["!", e[2]]]]
    if e[0] == "!":
        return ["^", e[1], ["c", 1]]
    return ["<=>", e, ["c", 1]]


def _subst_neg(e, v):
    k = e[0]
    if k == "c":
        return e
    if k == "v":
        return ["!", e] if e[1] == v else e
    if k == "!":
        return ["!", _subst_neg(e[1], v)]
    return [k, _subst_neg(e[1], v), _subst_neg(e[2], v)]


def transform(net, t, rng):
    """Returns (new net, namemap orig->new, flipped orig names, fmt, order) or None if not applicable."""
    names = list(net["names"])
    exprs = dict(net["exprs"])
    namemap = {n: n for n in names}
    flip = set()
    fmt = "bnet"
    if t == "rename":
        new = gen.rename_net(rng, net)
        back = new["renamed_from"]
        namemap = {o: n for n, o in back.items()}
        return new, namemap, flip, fmt
    if t == "reorder":
        order = names[:]
        rng.shuffle(order)
        return gen.net(order, exprs, net["cls"]), namemap, flip, fmt
    if t in ("dnf", "cnf", "redundant", "dneg", "implies"):
        for n in names:
            e = exprs[n]
            if len(X.support(e)) > 6:
                continue
            if t == "dnf":
                exprs[n] = t_dnf(e)
            elif t == "cnf":
                exprs[n] = t_cnf(e)
            elif t == "dneg":
                exprs[n] = ["!", ["!", e]]
            elif t == "implies":
                exprs[n] = t_implies(e)
            else:
                x = ["v", rng.choice(names)]
                exprs[n] = ["|", ["&", e, x], ["&", e, ["!", x]]]
        return gen.net(names, exprs, net["cls"]), namemap, flip, fmt
    if t == "negvar":
        v = rng.choice(names)
        ne = {n: _subst_neg(exprs[n], v) for n in names}
        ne[v] = ["!", ne[v]]
        flip.add(v)
        return gen.net(names, ne, net["cls"]), namemap, flip, fmt
    if t == "fmt-aeon":
        return gen.net(names, exprs, net["cls"]), namemap, flip, "aeon"
    if t == "fmt-sbml":
        return gen.net(names, exprs, net["cls"]), namemap, flip, "sbml"
    return None


def _mapped_dump(sd, ref_new, back, flip, ref_orig, bb):
    """by-space dump of sd (over new names) expressed over the original names/values."""
    def conv(sp):
        out = {}
        for k, v in sp.items():
            o = back[k]
            out[o] = (1 - v) if o in flip else v
        return bb.kspace(ref_orig, out)

    rows = []
    for i in sd.node_ids():
        d = sd.node_data(i)
        ch = []
        for j in sd.dag.successors(i):
            ch.append((conv(sd.node_data(j)["space"]), tuple(sorted(conv(m) for m in sd.edge_all_stable_motifs(i, j)))))
        rows.append((conv(d["space"]), bool(d["expanded"]), tuple(sorted(ch))))
    return sorted(rows)


def run_case(case):
    from .. import bb, oracles
    from ..ref import Ref
    from .sdcheck import by_space_dump
    from biodivine_aeon import AsynchronousGraph, BooleanNetwork
    from biobalm import SuccessionDiagram
    from biobalm.petri_net_translation import sanitize_network_names
    import re

    net = case["net"]
    res = Res(case)
    res.hash = net_hash(net) + ",".join(case["transforms"])
    rules = rules_text(net)
    rng = random.Random(case["rs"])
    if len(net["names"]) > 10:
        res.inconclusive = "too-large"
        return res.out()
    ref = bb.ref_of(net)
    W = Watch(res, ref.n)
    # ---- evaluator self-check against AEON's BDDs (all states)
    bn = bb.make_bn(net).infer_valid_graph()
    ag = AsynchronousGraph(bn)
    for nm in ref.names:
        f = ag.mk_update_function(nm)
        bits = 0
        for s in range(ref.N):
            val = {k: (s >> i) & 1 for i, k in enumerate(ref.names)}
            if f.r_restrict(val).is_true():
                bits |= 1 << s
        res.c("evaluator_selfchecks")
        if bits != ref.F1[ref.idx[nm]]:
            res.inconclusive = f"oracle-selfcheck: own evaluator and AEON disagree on {nm}"
            return res.out()
    try:
        sd0 = bb.make_sd(net)
        W(lambda: sd0.expand_bfs())
        d0 = by_space_dump(sd0, ref, bb)
        a0 = W(lambda: sd0.expanded_attractor_sets(), nodes=len(sd0))
        att0 = sorted(tuple(sorted(bb.vset_states(ref, vs)[0])) for sets in a0.values() for vs in sets)
        cx = any(len(a) > 1 for a in att0)
        alt0 = {}
        for t in case["transforms"]:
            ctx = {"rules": rules, "transform": t, "rs": case["rs"]}
            if t == "sanitize":
                _sanitize(net, ref, rng, res, bb, oracles, d0, att0, W, ctx)
                continue
            tr = transform(net, t, rng)
            if tr is None:
                continue
            new, namemap, flip, fmt = tr
            back = {n: o for o, n in namemap.items()}
            # self-check of the transformation on the reference model
            rnew = Ref.from_exprs(new["names"], new["exprs"])
            perm = [rnew.idx[namemap[o]] for o in ref.names]
            ok = True
            for s in range(ref.N):
                s2 = 0
                for i, o in enumerate(ref.names):
                    b = (s >> i) & 1
                    if o in flip:
                        b = 1 - b
                    if b:
                        s2 |= 1 << perm[i]
                for i, o in enumerate(ref.names):
                    fo = (ref.F1[i] >> s) & 1
                    fn = (rnew.F1[perm[i]] >> s2) & 1
                    if o in flip:
                        fn = 1 - fn
                    if fo != fn:
                        ok = False
                        break
                if not ok:
                    break
            if not ok:
                res.inconclusive = f"harness-transformation-wrong: {t}"
                continue
            ctx["transformed"] = X.to_bnet(new["names"], new["exprs"])[:600]
            sd1 = bb.make_sd(new, fmt=fmt)
            W(lambda: sd1.expand_bfs())
            d1 = _mapped_dump(sd1, rnew, back, flip, ref, bb)
            res.c("pairs_compared")
            res.c(f"t:{t}")
            if d1 != d0:
                res.v(f"diagram-differs:{t}", f"{len(d1)} nodes vs {len(d0)} in the original; the diagrams differ after mapping back through '{t}'", ctx=ctx)
            if not flip and t != "rename":
                if not (sd0.is_isomorphic(sd1) and sd1.is_isomorphic(sd0)):
                    res.v(f"not-isomorphic:{t}", "is_isomorphic is False", ctx=ctx)
            if not flip and t not in ("rename", "reorder"):
                # names and variable order unchanged: the heuristic strategies (block, SCC) must make the same
                # choices too (they detect sources and blocks semantically)
                for strat in ("block", "scc"):
                    if strat not in alt0:
                        a_sd = bb.make_sd(net)
                        W(lambda: a_sd.expand_block() if strat == "block" else a_sd.expand_scc())
                        alt0[strat] = by_space_dump(a_sd, ref, bb)
                    b_sd = bb.make_sd(new, fmt=fmt)
                    W(lambda: b_sd.expand_block() if strat == "block" else b_sd.expand_scc())
                    res.c("heuristic_diagrams_compared")
                    if _mapped_dump(b_sd, rnew, back, flip, ref, bb) != alt0[strat]:
                        res.v(f"{strat}-diagram-differs:{t}", f"expand_{strat}() builds a different diagram for the rewritten network", ctx=ctx)
            m1 = sorted(_mapped_dump_space(sd1.node_data(i)["space"], back, flip, ref, bb) for i in sd1.minimal_trap_spaces())
            m0 = sorted(bb.kspace(ref, sd0.node_data(i)["space"]) for i in sd0.minimal_trap_spaces())
            if m1 != m0:
                res.v(f"minimal-trap-spaces-differ:{t}", "minimal trap spaces differ after mapping back", ctx=ctx)
            a1 = W(lambda: sd1.expanded_attractor_sets(), nodes=len(sd1))
            att1 = []
            for sets in a1.values():
                for vs in sets:
                    st, _ = bb.vset_states(rnew, vs)
                    mapped = []
                    for s2 in st:
                        s = 0
                        for i, o in enumerate(ref.names):
                            b = (s2 >> perm[i]) & 1
                            if o in flip:
                                b = 1 - b
                            if b:
                                s |= 1 << i
                        mapped.append(s)
                    att1.append(tuple(sorted(mapped)))
            res.c("attractor_sets_compared", len(att1))
            if sorted(att1) != att0:
                res.v(f"attractors-differ:{t}", f"{len(att1)} attractor sets vs {len(att0)}; they differ after mapping back", ctx=ctx)
            # the default pipeline (build = block expansion + seeds): diagram shapes may legitimately differ under
            # renaming, the minimal trap spaces and the set of attractors may not
            if "build" not in alt0:
                b0 = bb.make_sd(net)
                W(lambda: b0.build())
                alt0["build"] = (
                    sorted(bb.kspace(ref, b0.node_data(i)["space"]) for i in b0.minimal_trap_spaces()),
                    sorted({tuple(sorted(bb.vset_states(ref, vs)[0])) for ss in W(lambda: b0.expanded_attractor_sets(), nodes=len(b0)).values() for vs in ss}),
                )
            b1 = bb.make_sd(new, fmt=fmt)
            W(lambda: b1.build())
            bm = sorted(_mapped_dump_space(b1.node_data(i)["space"], back, flip, ref, bb) for i in b1.minimal_trap_spaces())
            ba = set()
            for ss in W(lambda: b1.expanded_attractor_sets(), nodes=len(b1)).values():
                for vs in ss:
                    st, _ = bb.vset_states(rnew, vs)
                    mapped = []
                    for s2 in st:
                        sx = 0
                        for i, o in enumerate(ref.names):
                            bit = (s2 >> perm[i]) & 1
                            if o in flip:
                                bit = 1 - bit
                            if bit:
                                sx |= 1 << i
                        mapped.append(sx)
                    ba.add(tuple(sorted(mapped)))
            res.c("build_results_compared")
            if bm != alt0["build"][0]:
                res.v(f"build-minimal-trap-spaces-differ:{t}", f"build() finds {len(bm)} minimal trap spaces for the rewritten network, {len(alt0['build'][0])} for the original", ctx=ctx)
            if sorted(ba) != alt0["build"][1]:
                res.v(f"build-attractors-differ:{t}", f"build() finds {len(ba)} attractors for the rewritten network, {len(alt0['build'][1])} for the original", ctx=ctx)
    except bb.Aborted as e:
        res.inconclusive = f"aborted: {e}"
    res.nontrivial = len(d0) >= 3 or cx
    if res.nontrivial and case["rs"] % 50 == 0:
        res.sample = {"rules": rules, "transforms": case["transforms"]}
    return res.out()


def _mapped_dump_space(sp, back, flip, ref, bb):
    out = {}
    for k, v in sp.items():
        o = back[k]
        out[o] = (1 - v) if o in flip else v
    return bb.kspace(ref, out)


def _sanitize(net, ref, rng, res, bb, oracles, d0, att0, W, ctx):
    import re
    from biodivine_aeon import BooleanNetwork
    from biobalm import SuccessionDiagram
    from biobalm.petri_net_translation import sanitize_network_names

    bn = BooleanNetwork.from_bnet(bb.bnet_of(net))
    order = [bn.get_variable_name(v) for v in bn.variables()]
    base = rng.choice(["c", "x_", "G", "Gene", "node_1", "Abc_d"])
    weird_pool = [base + "[", base + "]", base + "_", "_" + base + "_", base + "{1}", base + "{2}", "__" + base + "_", base + ".", base + "-a", base + "+", base + " ", base + "é"]
    rng.shuffle(weird_pool)
    k = rng.randint(1, min(len(order), 5))
    chosen = rng.sample(order, k)
    applied = {}
    for o, w in zip(chosen, weird_pool):
        try:
            bn.set_variable_name(bn.find_variable(o), w)
            applied[o] = w
        except Exception:
            pass
    if not applied:
        return
    try:
        s = W(lambda: sanitize_network_names(bn))
    except Exception as e:
        res.v(f"sanitize-raised:{type(e).__name__}", f"sanitize_network_names raised on names {sorted(applied.values())}: {e}", ctx=ctx)
        return
    res.c("t:sanitize")
    new_names = [s.get_variable_name(v) for v in s.variables()]
    ctx = dict(ctx, weird=applied, sanitized=new_names)
    if any(not re.match(r"^[a-zA-Z0-9_]+$", n) for n in new_names):
        res.v("sanitize-name-not-solver-safe", f"{new_names}", ctx=ctx)
        return
    if len(set(new_names)) != len(new_names):
        res.v("sanitize-duplicate-names", f"{new_names}", ctx=ctx)
        return
    pre = [re.sub("[^a-zA-Z0-9_]", "_", bn.get_variable_name(v)) for v in bn.variables()]
    if len(set(pre)) != len(pre):
        res.c("sanitize_clashes")
    # positional mapping: variable ids are preserved
    namemap = dict(zip(order, new_names))
    got = oracles.ref_of_bn(s)
    exp_names = [namemap[o] for o in ref.names]
    if sorted(got.names) != sorted(exp_names):
        res.v("sanitize-variables-changed", f"{got.names}", ctx=ctx)
        return
    got = oracles._reorder(got, exp_names)
    for i in range(ref.n):
        if got.F1[i] != ref.F1[i]:
            res.v("sanitize-changed-dynamics", f"update function of {ref.names[i]} -> {exp_names[i]} changed", ctx=ctx)
            return
    sd1 = SuccessionDiagram(s)
    W(lambda: sd1.expand_bfs())
    back = {n: o for o, n in namemap.items()}
    d1 = _mapped_dump(sd1, got, back, set(), ref, bb)
    res.c("pairs_compared")
    if d1 != d0:
        res.v("diagram-differs:sanitize", "diagram of the sanitised network differs after mapping back", ctx=ctx)
