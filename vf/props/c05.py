"""C05 — diagrams completed with skip nodes never lose an attractor."""
from __future__ import annotations

import random

from .. import gen
from .common import Res, Watch, net_hash, rules_text

LEVEL = "exploration"
RULE = (
    "per network: expansion stopped early by a random strategy and size limit, a random subset of stubs turned into "
    "skip nodes by skip_to_minimal / expand_minimal_spaces(skip_ignored), the rest by skip_remaining, then "
    "node_attractor_seeds(id, compute=True) over ALL nodes in 6 different orders (each on a fresh diagram; no attractor "
    "query before skipping). Seeds judged against the explicit transition graph: sound, every attractor at least once, "
    "exactly once when the reference finds no motif-avoidant attractor. non-trivial = >= 1 skip node and >= 2 "
    "attractors; distinct by rules+plan"
)
ASSUMPTIONS = ["reference model vf/ref.py"]
DEADLINE = 300


def cases(tier, seed):
    rng = random.Random(f"C05/{seed}")
    nmax, count = (7, 1800) if tier == "quick" else (9, 9000)
    cl = [("overlap-maa", 3), ("gadget", 5), ("rand", 2), ("inputs", 1), ("dense-neg", 1), ("cond-maa", 1)]
    nets = gen.corpus() + [gen.draw(rng, cl, nmax) for _ in range(count)]
    nets += [gen.model_net(f) for f in gen.models_up_to(9 if tier == "quick" else 12)]
    out = []
    # directed regression case for the open known finding (deterministic witness)
    from .. import expr as X

    wn, we = X.parse_bnet(WITNESS_BNET)
    out.append({"net": gen.net(wn, we, "witness"), "cls": "witness", "stop": ["spaces", [{}, {"D": 1, "L": 1}]], "skip_p": 0.0, "orders": 2, "rs": 12345})
    # second shape of the same finding (found by the thorough tier, seed 1): the pruners are regular expanded nodes
    wn, we = X.parse_bnet(WITNESS2_BNET)
    out.append({"net": gen.net(wn, we, "witness"), "cls": "witness", "stop": ["pre_min_skip", 4], "skip_p": 0.6, "orders": 6, "rs": 804108667})
    for n in gen.corpus():
        if len(n["names"]) >= 6:
            for k in range(6):
                out.append({"net": n, "cls": n["cls"], "stop": ["succ1", k], "skip_p": 0.0, "orders": 6, "rs": rng.randrange(1 << 30)})
    for n in nets:
        for rep in range(1 if tier == "quick" else 2):
            out.append(
                {
                    "net": n,
                    "cls": n["cls"],
                    "stop": [rng.choice(["bfs", "dfs", "min", "min_skip", "block", "none", "succ", "succ1", "succ1", "pre_min_skip", "pre_min_skip"]), rng.randint(1, 7)],
                    "skip_p": rng.choice([0.0, 0.3, 0.6, 1.0]),
                    "orders": 6,
                    "rs": rng.randrange(1 << 30),
                }
            )
    return out


WITNESS_BNET = """D, L
L, D
z, f
f, z
F3t, (L7 & D)
L7, (F3t & D)
lz4, (((!lz4 & !Xr) | Dzar) & ((D & z) & F3t))
Xr, (((!lz4 & !Xr) | Dzar) & ((D & z) & F3t))
Dzar, ((lz4 & Xr) & ((D & z) & F3t))
"""


WITNESS2_BNET = """ntz, (ntz | Rcq)
Gq9, ((Gq9 & ntz) | Rcq)
U, ((U & Gq9) | Rcq)
Rcq, (Rcq & U)
w78q, (w78q | !ntz)
Ut, Ut
Klh, (((!Klh & !Dem) | Pg5) & !Ut)
Dem, (((!Klh & !Dem) | Pg5) & !Ut)
Pg5, ((Klh & Dem) & !Ut)
"""


def gate(agg):
    c = agg["cnt"]
    return [f"monitor counter {k} is zero" for k in ("skip_nodes", "orders_run", "maa_present", "pruning_applications", "overlapping_skip_pairs") if c.get(k, 0) == 0]


def build(bb, net, case, rr, W):
    sd = bb.make_sd(net)
    strat, L = case["stop"]
    if strat == "bfs":
        W(lambda: sd.expand_bfs(size_limit=L))
    elif strat == "dfs":
        W(lambda: sd.expand_dfs(size_limit=L))
    elif strat == "min":
        W(lambda: sd.expand_minimal_spaces(size_limit=L))
    elif strat == "min_skip":
        W(lambda: sd.expand_minimal_spaces(size_limit=L, skip_ignored=True))
    elif strat == "block":
        W(lambda: sd.expand_block(size_limit=L))
    elif strat == "pre_min_skip":
        # a partial expansion two or more levels deep, then minimal-space expansion that skips everything it ignores;
        # if it reports completion nothing else is skipped afterwards (it must have left no stub behind)
        W(lambda: sd.expand_bfs(bfs_level_limit=0))
        ch = sorted(sd.dag.successors(0))
        for j in range(min(2, len(ch))):
            c = ch[(L + j) % len(ch)]
            W(lambda c=c: sd.expand_bfs(node_id=c, bfs_level_limit=rr.choice([0, 1, 1, 2])), nodes=len(sd))
        done = W(lambda: sd.expand_minimal_spaces(skip_ignored=True), nodes=len(sd))
        if done is True:
            return sd
    elif strat == "spaces":
        for sp in L:
            i = sd.find_node(sp)
            if i is not None:
                W(lambda i=i: sd.node_successors(i, compute=True))
    elif strat == "succ1":
        # root plus exactly one of its children (the L-th, cyclically)
        ch = sorted(W(lambda: sd.node_successors(0, compute=True)))
        if ch:
            W(lambda: sd.node_successors(ch[L % len(ch)], compute=True))
    elif strat == "succ":
        W(lambda: sd.node_successors(0, compute=True))
        for i in list(sd.stub_ids()):
            if rr.random() < 0.4:
                W(lambda i=i: sd.node_successors(i, compute=True))
    for i in list(sd.stub_ids()):
        if rr.random() < case["skip_p"]:
            W(lambda i=i: sd.skip_to_minimal(i), nodes=len(sd))
    W(lambda: sd.skip_remaining(), nodes=len(sd))
    return sd


def _issub(x, y):
    return all(k in x and x[k] == v for k, v in y.items())


def _inter(x, y):
    r = dict(x)
    for k, v in y.items():
        if k in r and r[k] != v:
            return None
        r[k] = v
    return r


def run_case(case):
    from .. import bb
    from ..ref import consistent
    import biobalm._sd_attractors.attractor_candidates as AC
    import biobalm.succession_diagram as SDM

    net = case["net"]
    res = Res(case)
    res.hash = net_hash(net) + str(case["stop"]) + str(case["skip_p"])
    ref = bb.ref_of(net)
    atts = ref.attractors()
    maa = ref.has_maa()
    W = Watch(res, ref.n)
    rules = rules_text(net)

    # observe the real pruning: avoid-list length per candidate computation
    state = {"node": None, "avoid": {}, "lists": {}}
    orig_cac = SDM.compute_attractor_candidates
    orig_fp = AC.compute_fixed_point_reduced_STG

    def cac(sd, node_id, *a, **k):
        state["node"] = node_id
        try:
            return orig_cac(sd, node_id, *a, **k)
        finally:
            state["node"] = None

    def fp(pn, retained_set={}, ensure_subspace={}, avoid_subspaces=[], solution_limit=None):
        if state["node"] is not None:
            state["avoid"][state["node"]] = max(state["avoid"].get(state["node"], 0), len(avoid_subspaces))
            state["lists"][state["node"]] = [dict(a) for a in avoid_subspaces]
        return orig_fp(pn, retained_set, ensure_subspace=ensure_subspace, avoid_subspaces=avoid_subspaces, solution_limit=solution_limit)

    SDM.compute_attractor_candidates = cac
    AC.compute_fixed_point_reduced_STG = fp
    try:
        skipn = 0
        for oi in range(case["orders"]):
            rr = random.Random(case["rs"])
            try:
                sd = build(bb, net, case, rr, W)
            except bb.Aborted as e:
                res.inconclusive = f"aborted: {e}"
                return res.out()
            ids = list(sd.node_ids())
            if oi == 1:
                ids.reverse()
            elif oi >= 2:
                random.Random(case["rs"] + oi).shuffle(ids)
            state["avoid"] = {}
            state["lists"] = {}
            ctx = {"rules": rules, "stop": case["stop"], "skip_p": case["skip_p"], "rs": case["rs"], "order": ids}
            seeds = {}
            pre_empty = {i for i in ids if sd.node_data(i)["attractor_seeds"] == [] or sd.node_data(i)["attractor_candidates"] == []}
            try:
                for i in ids:
                    seeds[i] = W(lambda i=i: sd.node_attractor_seeds(i, compute=True), nodes=len(sd))
            except bb.Aborted as e:
                res.inconclusive = f"aborted: {e}"
                continue
            except RuntimeError as e:
                res.c("runtime_errors")
                continue
            res.c("orders_run")
            skips = [i for i in sd.node_ids() if sd.node_data(i)["skipped"]]
            skipn = max(skipn, len(skips))
            res.c("skip_nodes", len(skips))
            pruned = {i for i in skips if state["avoid"].get(i, 0) > sd.dag.out_degree(i)}
            res.c("pruning_applications", len(pruned))
            empties = set(pre_empty)
            pruners_of = {}
            # replay the query order to know which nodes had an empty result when each skip node was computed,
            # and explain every extra avoid entry by the documented rule (intersection with a node that is not a
            # superspace of the skip node and has an empty result)
            for i in ids:
                if i in pruned:
                    hs = sd.node_data(i)["space"]
                    child = [sd.edge_stable_motif(i, j, reduced=True) for j in sd.dag.successors(i)]
                    extra = [a for a in state["lists"].get(i, []) if a not in child]
                    pr = []
                    for a in extra:
                        full = dict(hs)
                        full.update(a)
                        expl = [n for n in empties if n != i and not _issub(hs, sd.node_data(n)["space"]) and _inter(hs, sd.node_data(n)["space"]) == full]
                        if not expl:
                            res.v("avoid-entry-unexplained", f"skip node {i} ({hs}) avoids {a}, which is not the intersection with any attractor-free node that is not a superspace", ctx=ctx)
                        pr.append((full, expl))
                    pruners_of[i] = pr
                if seeds.get(i) == []:
                    empties.add(i)
            if oi == 0:
                sp = [ref.sp(sd.node_data(i)["space"]) for i in skips]
                res.c("overlapping_skip_pairs", sum(1 for a in range(len(sp)) for b in range(a + 1, len(sp)) if consistent(sp[a], sp[b])))
                if maa:
                    res.c("maa_present")
            per = {}
            for i, ss in seeds.items():
                nsp = ref.sp(sd.node_data(i)["space"])
                for s in ss:
                    if not bb.is_full_state(ref, s):
                        res.v("seed-not-full-state", f"node {i} seed {s}", ctx=ctx)
                        continue
                    a = ref.attractor_of(ref.state_of(s))
                    if a is None:
                        res.v("seed-not-in-attractor", f"node {i} ({sd.node_data(i)['space']}) seed {s} lies in no attractor", ctx=ctx)
                        continue
                    if not ref.attractor_in_space(a, nsp):
                        res.v("seed-attractor-outside-node", f"node {i} ({sd.node_data(i)['space']}) seed {s}", ctx=ctx)
                    per[a] = per.get(a, 0) + 1
            for a in atts:
                k = per.get(a, 0)
                if k == 0:
                    holders = [i for i in sd.node_ids() if ref.attractor_in_space(a, ref.sp(sd.node_data(i)["space"]))]
                    via = "no-pruning"
                    cover = []
                    for h in holders:
                        for full, expl in pruners_of.get(h, []):
                            if ref.attractor_in_space(a, ref.sp(full)):
                                cover.append((h, expl))
                    if cover:
                        # the open finding's mechanism: the avoided intersection comes from a node whose empty result
                        # only says "no attractor outside my children" — a skip node (possibly emptied by pruning
                        # itself), or a regular expanded node all of whose attractors do lie inside its children.
                        # A regular node that is empty although the reference has an attractor of its space outside
                        # every child is a different defect (its own search is wrong) and keeps its own key.
                        def legit_empty(n):
                            d = sd.node_data(n)
                            if d["skipped"]:
                                return "skip"
                            if not d["expanded"]:
                                return None
                            nsp2 = ref.sp(d["space"])
                            kids = [ref.sp(sd.node_data(c)["space"]) for c in sd.dag.successors(n)]
                            for b in atts:
                                if ref.attractor_in_space(b, nsp2) and not any(ref.attractor_in_space(b, k2) for k2 in kids):
                                    return None
                            return "regular"

                        kinds = {legit_empty(n) for _, expl in cover for n in expl}
                        if "skip" in kinds:
                            via = "skip-pruning"
                        elif "regular" in kinds:
                            via = "skip-pruning:pruners-are-regular-nodes"
                        else:
                            via = "pruned-by-wrongly-empty-node"
                    res.v(
                        f"attractor-lost:{via}",
                        f"attractor {ref.states(a)[:6]} ({a.bit_count()} states) is reported by no node; nodes containing it: {holders}, pruned skip nodes: {sorted(pruned)}",
                        ctx=ctx,
                    )
                elif k > 1 and not maa:
                    res.v("attractor-duplicated-without-maa", f"attractor {ref.states(a)[:6]} reported {k} times although the network has no motif-avoidant attractor", ctx=ctx)
                else:
                    res.c("attractors_found")
    finally:
        SDM.compute_attractor_candidates = orig_cac
        AC.compute_fixed_point_reduced_STG = orig_fp
    res.nontrivial = skipn >= 1 and len(atts) >= 2
    if res.nontrivial and case["rs"] % 40 == 0:
        res.sample = {"rules": rules, "stop": case["stop"], "skip_p": case["skip_p"], "attractors": len(atts), "maa": maa}
    return res.out()
