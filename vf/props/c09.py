"""C09 — the trap-space solver returns exactly the requested trap spaces."""
from __future__ import annotations

import random

from .. import gen, history
from .common import Res, Watch, net_hash, rules_text

LEVEL = "exploration"
RULE = (
    "direct sweep: per network 14 calls of trappist over {BooleanNetwork, full Petri net, Petri net restricted to the "
    "enclosing subspace} x problem {min,max,fix} x reverse_time x enclosing subspace {empty, random, non-trap, with "
    "variables absent from the net} x 0-3 avoided subspaces x source list {None, [], subsets} x limit {None,1,2,3}, and "
    "6 calls of compute_fixed_point_reduced_STG over retained sets x ensure x avoid (incl. the empty avoided space) x "
    "limit; all 256 two-variable networks included; expected sets from explicit enumeration of all 3^n subspaces of "
    "the argument's own dynamics (truth tables, or the Petri net decoded by the reference decoder). ambient: the same "
    "oracle as a contract (icontract.ensure) on every solver call made by random expansion/attractor histories. "
    "non-trivial = call whose expected result has >= 2 spaces or uses avoid/ensure/reverse; distinct by rules+call spec"
)
ASSUMPTIONS = ["reference model vf/ref.py; for Petri-net arguments the net itself (decoded by vf/ref.py) defines the dynamics, its faithfulness to the network is C10's subject"]
DEADLINE = 300


def cases(tier, seed):
    rng = random.Random(f"C09/{seed}")
    nmax, count, amb = (6, 7000, 1500) if tier == "quick" else (8, 60000, 16000)
    cl = [("rand", 4), ("rand-wide", 2), ("gadget", 3), ("inputs", 3), ("dense-neg", 2)]
    nets = gen.corpus() + [gen.exh2(i) for i in range(256)] + [gen.draw(rng, cl, nmax) for _ in range(count)]
    out = [{"net": n, "cls": n["cls"], "mode": "direct", "rs": rng.randrange(1 << 30)} for n in nets if len(n["names"]) <= 9]
    kinds = ["bfs", "dfs", "min", "min_skip", "attr", "block", "scc", "skip", "skiprem", "cand", "seeds", "xseeds", "target"]
    for _ in range(amb):
        n = gen.draw(rng, cl + [("overlap-maa", 0.5)], 7)
        out.append({"net": n, "cls": n["cls"], "mode": "ambient", "history": history.gen_history(rng, kinds, rng.randint(3, 7)), "rs": rng.randrange(1 << 30)})
    return out


def gate(agg):
    c = agg["cnt"]
    need = ["direct_calls", "ambient_trappist_calls", "ambient_reduced_calls", "problem:min", "problem:max", "problem:fix", "reversed", "arg:bn", "arg:pn", "arg:rpn", "with_avoid", "with_limit", "ensure_absent_vars", "reduced_calls"]
    return [f"monitor counter {k} is zero" for k in need if c.get(k, 0) == 0]


def run_case(case):
    from .. import bb

    net = case["net"]
    res = Res(case)
    res.hash = net_hash(net) + case["mode"] + str(case["rs"])
    ref = bb.ref_of(net)
    if case["mode"] == "direct":
        return _direct(case, res, ref, bb)
    return _ambient(case, res, ref, bb)


def _direct(case, res, ref, bb):
    from .. import oracles
    from ..ref import Ref
    from biobalm.trappist_core import trappist, compute_fixed_point_reduced_STG
    from biobalm.petri_net_translation import network_to_petrinet, restrict_petrinet_to_subspace

    net = case["net"]
    rng = random.Random(case["rs"])
    rules = rules_text(net)
    n = ref.n
    names = ref.names
    bn = bb.make_bn(net)
    pn = network_to_petrinet(bn)
    traps = ref.all_traps()
    nt = False
    W = Watch(res, n)
    for _ in range(14):
        problem = rng.choice(["min", "max", "max", "fix"])
        rev = rng.random() < 0.35
        ek = rng.choice(["empty", "empty", "rand", "rand", "trap"])
        if ek == "empty":
            ens = {}
        elif ek == "trap":
            ens = dict(rng.choice(traps))
        else:
            ens = {v: rng.randint(0, 1) for v in range(n) if rng.random() < 0.3}
        if problem == "max" and len(ens) == n:
            ens.pop(next(iter(ens)))
        avoid = [{v: rng.randint(0, 1) for v in rng.sample(range(n), rng.randint(1, n))} for _ in range(rng.choice([0, 0, 1, 2, 3]))]
        srcs = ref.sources()
        osv = rng.choice([None, None, [], "sub"])
        if osv == "sub":
            osv = [s for s in srcs if rng.random() < 0.6]
        lim = rng.choice([None, None, None, 1, 2, 3])
        arg = rng.choice(["bn", "pn", "rpn"])
        ens_named = ref.named(ens)
        absent = False
        if arg == "bn":
            netarg = bn
            dyn = ref
        elif arg == "pn":
            netarg = pn
            dyn, _ = Ref.from_petri_net(pn, names)
        else:
            netarg = restrict_petrinet_to_subspace(pn, ens_named)
            free = [names[i] for i in range(n) if i not in ens]
            dyn, _ = Ref.from_petri_net(netarg, free)
            absent = bool(ens)
            avoid = [a for a in avoid]  # may mention ensured variables: allowed (they are in `ensure`)
        avoid_named = [ref.named(a) for a in avoid]
        osv_named = None if osv is None else [names[i] for i in osv]
        spec = {"problem": problem, "reverse_time": rev, "ensure": ens_named, "avoid": avoid_named, "sources": osv_named, "limit": lim, "arg": arg}
        exp = oracles.expected_trappist(dyn, problem, rev, ens_named, avoid_named, osv_named if osv_named is not None else None, lim)
        if exp is None:
            continue
        try:
            got = W(lambda: trappist(netarg, problem=problem, reverse_time=rev, solution_limit=lim, ensure_subspace=ens_named, avoid_subspaces=avoid_named, optimize_source_variables=osv_named))
        except bb.Aborted as e:
            res.inconclusive = f"aborted: {e}"
            continue
        res.c("direct_calls")
        res.c(f"problem:{problem}")
        res.c(f"arg:{arg}")
        if rev:
            res.c("reversed")
        if avoid:
            res.c("with_avoid")
        if lim:
            res.c("with_limit")
        if absent:
            res.c("ensure_absent_vars")
        tag = f"{problem}:{'rev' if rev else 'fwd'}:{arg}"
        oracles.judge_trappist(got, exp, lim, lambda k, m: res.v(f"trappist-{k}:{tag}", m, rules=rules, spec=spec), f"trappist {spec}")
        if len(exp) >= 2 or avoid or ens or rev:
            nt = True
    # reduced transition graph solver
    for _ in range(6):
        retained = {v: rng.randint(0, 1) for v in range(n) if rng.random() < 0.5}
        ens = {v: rng.randint(0, 1) for v in range(n) if rng.random() < 0.2}
        avoid = [{v: rng.randint(0, 1) for v in rng.sample(range(n), rng.randint(0 if rng.random() < 0.1 else 1, n))} for _ in range(rng.choice([0, 0, 1, 2]))]
        lim = rng.choice([None, None, 1, 2])
        spec = {"retained": ref.named(retained), "ensure": ref.named(ens), "avoid": [ref.named(a) for a in avoid], "limit": lim}
        dyn, _ = Ref.from_petri_net(pn, names)
        exp = oracles.expected_reduced_stg(dyn, spec["retained"], spec["ensure"], spec["avoid"])
        got = compute_fixed_point_reduced_STG(pn, spec["retained"], ensure_subspace=spec["ensure"], avoid_subspaces=spec["avoid"], solution_limit=lim)
        res.c("reduced_calls")
        res.c("direct_calls")
        if any(len(a) == 0 for a in avoid):
            res.c("empty_avoid_space")
        oracles.judge_trappist(got, exp, lim, lambda k, m: res.v(f"reduced-stg-{k}", m, rules=rules, spec=spec), f"compute_fixed_point_reduced_STG {spec}")
        for g in got:
            if set(g.keys()) != set(names):
                res.v("reduced-stg-not-full-state", f"{g}", rules=rules, spec=spec)
    res.nontrivial = nt
    if nt and case["rs"] % 60 == 0:
        res.sample = {"rules": rules, "last_spec": spec}
    return res.out()


def install_contracts(res, max_vars=8):
    """Ambient contracts on the two solver entry points."""
    from .. import oracles
    from ..instrument import contract
    from ..ref import Ref
    import biobalm.trappist_core as TC
    import networkx as nx

    def dyn_of(network):
        if isinstance(network, nx.DiGraph):
            names = sorted(str(p)[3:] for p in network.nodes if str(p).startswith("b0_"))
            if len(names) > max_vars:
                return None
            return Ref.from_petri_net(network, names)[0]
        if network.variable_count() > max_vars:
            return None
        return oracles.ref_of_bn(network)

    def post_trappist(result, network, problem, reverse_time, solution_limit, ensure_subspace, avoid_subspaces, optimize_source_variables):
        dyn = dyn_of(network)
        if dyn is None:
            res.c("ambient_skipped_large")
            return True
        ens = ensure_subspace or {}
        av = avoid_subspaces or []
        exp = oracles.expected_trappist(dyn, problem, reverse_time, ens, av, optimize_source_variables, solution_limit)
        if exp is None:
            res.c("ambient_out_of_scope")
            return True
        res.c("ambient_trappist_calls")
        res.c(f"ambient:{problem}")
        spec = {"problem": problem, "reverse_time": reverse_time, "ensure": ens, "avoid": av, "sources": optimize_source_variables, "limit": solution_limit, "net_vars": dyn.names}
        oracles.judge_trappist(result, exp, solution_limit, lambda k, m: res.v(f"trappist-{k}:{problem}:ambient", m, spec=spec), f"trappist {spec}")
        return True

    def post_reduced(result, petri_net, retained_set, ensure_subspace, avoid_subspaces, solution_limit):
        dyn = dyn_of(petri_net)
        if dyn is None:
            res.c("ambient_skipped_large")
            return True
        exp = oracles.expected_reduced_stg(dyn, retained_set, ensure_subspace, avoid_subspaces)
        if exp is None:
            res.c("ambient_out_of_scope")
            return True
        res.c("ambient_reduced_calls")
        spec = {"retained": retained_set, "ensure": ensure_subspace, "avoid": avoid_subspaces, "limit": solution_limit, "net_vars": dyn.names}
        oracles.judge_trappist(result, exp, solution_limit, lambda k, m: res.v(f"reduced-stg-{k}:ambient", m, spec=spec), f"compute_fixed_point_reduced_STG {spec}")
        return True

    contract(TC, "trappist", post_trappist)
    contract(TC, "compute_fixed_point_reduced_STG", post_reduced)


def _ambient(case, res, ref, bb):
    from ..instrument import remove_contracts, CONTRACTS

    import biobalm.succession_diagram  # noqa: F401  (make sure every importer is loaded before patching)
    import biobalm.control  # noqa: F401

    W = Watch(res, ref.n)
    CONTRACTS.reset()
    install_contracts(res)
    try:
        sd = bb.make_sd(case["net"])
        for op in case["history"]:
            holder = {}

            def f(op=op):
                holder["sd"], holder["r"] = history.apply_op(sd, op, ref)

            W(f, nodes=len(sd))
            sd = holder["sd"]
    except bb.Aborted as e:
        res.inconclusive = f"aborted: {e}"
    finally:
        remove_contracts()
    for w in CONTRACTS.witnesses:
        res.v("oracle-error", str(w))
    res.c("contract_evaluations", sum(CONTRACTS.evals.values()))
    res.nontrivial = res.cnt.get("ambient_trappist_calls", 0) + res.cnt.get("ambient_reduced_calls", 0) >= 3
    for v in res.viol:
        v["detail"]["rules"] = rules_text(case["net"])
        v["detail"]["history"] = case["history"]
    return res.out()
