"""C12 — attractor sets are the complete attractors and the symbolic fallback agrees."""
from __future__ import annotations

import random

from .. import gen
from .common import Res, Watch, net_hash, rules_text

LEVEL = "exploration"
RULE = (
    "per network, on a fully or partially expanded diagram, for every node and one of four request orders "
    "(sets first / seeds first / candidates first / seeds+reclaim_node_data first): node_attractor_sets(compute=True) "
    "is compared state by state (VertexSet.items()) with the reference attractor containing the corresponding seed; "
    "symbolic_attractor_fallback is called directly and reached through node_attractor_seeds(symbolic_fallback=True) "
    "on a twin with attractor_candidates_limit=1, and its set of attractors compared with the default method and the "
    "reference. non-trivial = a complex attractor compared, or >= 2 sets in one node; distinct by rules+mode+order"
)
ASSUMPTIONS = ["reference model vf/ref.py", "VertexSet.items() enumerates exactly the states of the set (AEON trusted)"]
DEADLINE = 300
ORDERS = ["sets-first", "seeds-first", "cands-first", "reclaim", "raw-cands-first"]


def cases(tier, seed):
    rng = random.Random(f"C12/{seed}")
    nmax, count = (7, 5000) if tier == "quick" else (8, 30000)
    cl = [("gadget", 4), ("dense-neg", 4), ("rand", 2), ("rand-wide", 2), ("inputs", 2), ("overlap-maa", 0.3), ("rings", 3), ("cond-maa", 2)]
    nets = gen.corpus() + [gen.draw(rng, cl, nmax) for _ in range(count)] + [gen.model_net(f) for f in gen.models_up_to(9 if tier == "quick" else 12)]
    out = []
    for n in nets:
        out.append({"net": n, "cls": n["cls"], "mode": rng.choice(["full", "full", "partial", "root", "stubfirst"]), "order": rng.choice(ORDERS), "rs": rng.randrange(1 << 30)})
    return out


def gate(agg):
    c = agg["cnt"]
    need = ["sets_compared", "complex_sets_compared", "fixed_point_sets", "reduced_node_sets", "fallback_direct", "fallback_via_seeds", "stub_nodes", "order:reclaim", "sets_on_stub_before_expansion"]
    return [f"monitor counter {k} is zero" for k in need if c.get(k, 0) == 0]


def run_case(case):
    from .. import bb
    from .attrs import judge_sets, judge_seeds, node_expected
    from biobalm._sd_attractors.attractor_symbolic import symbolic_attractor_fallback

    net = case["net"]
    res = Res(case)
    res.hash = net_hash(net) + case["mode"] + case["order"]
    ref = bb.ref_of(net)
    W = Watch(res, ref.n)
    rules = rules_text(net)
    rr = random.Random(case["rs"])
    L = rr.randint(1, 4)

    def build(cfg=None):
        sd = bb.make_sd(net, cfg)
        if case["mode"] == "stubfirst":
            # sets requested while the root is an unexpanded stub, then the diagram is expanded
            try:
                W(lambda: sd.node_attractor_sets(0, compute=True))
                res.c("sets_on_stub_before_expansion")
            except RuntimeError:
                pass
            W(lambda: sd.expand_bfs())
        if case["mode"] == "full":
            W(lambda: sd.expand_bfs())
        elif case["mode"] == "partial":
            W(lambda: sd.expand_bfs(size_limit=L))
        return sd

    try:
        sd = build()
        twin = build({"attractor_candidates_limit": 1})
    except bb.Aborted as e:
        res.inconclusive = f"aborted: {e}"
        return res.out()
    order = case["order"]
    res.c(f"order:{order}")
    nt = False
    for i in list(sd.node_ids()):
        ctx = {"rules": rules, "mode": case["mode"], "L": L, "order": order, "node": i}
        d = sd.node_data(i)
        kind = "expanded" if d["expanded"] else "stub"
        try:
            if order == "seeds-first":
                W(lambda: sd.node_attractor_seeds(i, compute=True), nodes=len(sd))
            elif order == "cands-first":
                W(lambda: sd.node_attractor_candidates(i, compute=True), nodes=len(sd))
            elif order == "raw-cands-first":
                # un-minified candidates (many spurious ones): the exact symbolic filter has to do all the work
                W(lambda: sd.node_attractor_candidates(i, compute=True, greedy_asp_minification=False, simulation_minification=False), nodes=len(sd))
            elif order == "reclaim":
                W(lambda: sd.node_attractor_seeds(i, compute=True), nodes=len(sd))
                sd.reclaim_node_data()
            sets = W(lambda: sd.node_attractor_sets(i, compute=True), nodes=len(sd))
            seeds = sd.node_attractor_seeds(i)
        except bb.Aborted as e:
            res.inconclusive = f"aborted: {e}"
            continue
        except RuntimeError:
            res.c("runtime_errors")
            continue
        res.c(f"{kind}_nodes" if kind == "expanded" else "stub_nodes")
        judge_seeds(ref, sd, i, seeds, res, f"{kind}", bb, exact=True, ctx=ctx)
        before = res.cnt.get("complex_sets_compared", 0)
        judge_sets(ref, sd, i, sets, seeds, res, f"{kind}:{order}", bb, ctx=ctx)
        if res.cnt.get("complex_sets_compared", 0) > before or len(sets) >= 2:
            nt = True
        for vs in sets:
            if vs.cardinality() == 1:
                res.c("fixed_point_sets")
        if d["space"] and sets:
            res.c("reduced_node_sets", len(sets))
        # cached answer must be the same object list on a second request
        again = sd.node_attractor_sets(i, compute=False)
        if [bb.vset_states(ref, a)[0] for a in again] != [bb.vset_states(ref, a)[0] for a in sets]:
            res.v(f"sets-change-on-second-request:{kind}", f"node {i}", ctx=ctx)
        # ---- fallback, direct call
        exp = set(node_expected(ref, sd, i, bb))
        try:
            fs, fsets = W(lambda: symbolic_attractor_fallback(sd, i), nodes=len(sd))
            got = set()
            for vs in fsets:
                st, pr = bb.vset_states(ref, vs)
                got.add(bb.bits_of(st))
            res.c("fallback_direct")
            default = {ref.attractor_of(ref.state_of(s)) for s in seeds if bb.is_full_state(ref, s)}
            if got != default:
                res.v(f"fallback-differs-from-default:{kind}", f"node {i} ({d['space']}): fallback finds {len(got)} attractors, default {len(default)}", ctx=ctx)
            if got != exp:
                res.v(f"fallback-differs-from-reference:{kind}", f"node {i} ({d['space']}): fallback finds {len(got)} attractors, reference {len(exp)}", ctx=ctx)
            if len(fs) != len(fsets):
                res.v(f"fallback-seeds-sets-length:{kind}", f"node {i}", ctx=ctx)
            for s, vs in zip(fs, fsets):
                st, _ = bb.vset_states(ref, vs)
                if not bb.is_full_state(ref, s) or ref.state_of(s) not in st:
                    res.v(f"fallback-seed-not-in-its-set:{kind}", f"node {i} seed {s}", ctx=ctx)
        except bb.Aborted as e:
            res.inconclusive = f"aborted: {e}"
        # ---- fallback through the public seeds call on the twin (candidate limit 1 forces it)
        try:
            ts = W(lambda: twin.node_attractor_seeds(i, compute=True, symbolic_fallback=True), nodes=len(twin))
            res.c("fallback_via_seeds")
            tgot = {ref.attractor_of(ref.state_of(s)) for s in ts if bb.is_full_state(ref, s)}
            if tgot != exp or len(ts) != len(exp):
                res.v(f"fallback-seeds-differ:{kind}", f"node {i} ({d['space']}): seeds via fallback {ts}, reference has {len(exp)} attractors", ctx=ctx)
            if rr.random() < 0.5:
                # memory reclamation between the fallback seeds and the sets: the sets must still follow the seeds' order
                twin.reclaim_node_data()
                res.c("reclaim_between_fallback_seeds_and_sets")
            tsets = W(lambda: twin.node_attractor_sets(i, compute=True), nodes=len(twin))
            ts_now = twin.node_attractor_seeds(i)
            if ts_now != ts:
                res.v(f"fallback-seeds-changed:{kind}", f"node {i}: seeds changed from {ts} to {ts_now} after requesting sets", ctx=ctx)
            judge_sets(ref, twin, i, tsets, ts_now, res, f"{kind}:twin", bb, ctx=ctx)
        except bb.Aborted as e:
            res.inconclusive = f"aborted: {e}"
        except RuntimeError as e:
            res.v(f"fallback-raised:{kind}", f"node {i}: {e}", ctx=ctx)
    # the aggregate accessor must agree with the per-node one (expanded nodes with a non-empty list only)
    try:
        xs = W(lambda: sd.expanded_attractor_sets(), nodes=len(sd))
        res.c("expanded_attractor_sets_calls")
        for i in sd.node_ids():
            d = sd.node_data(i)
            mine = [bb.vset_states(ref, a)[0] for a in (d["attractor_sets"] or [])]
            if d["expanded"] and mine:
                got = [bb.vset_states(ref, a)[0] for a in xs.get(i, [])]
                if got != mine:
                    res.v("expanded_attractor_sets-differs", f"node {i}: expanded_attractor_sets() disagrees with node_attractor_sets()", ctx={"rules": rules})
            elif i in xs:
                res.v("expanded_attractor_sets-extra-node", f"node {i} (expanded={d['expanded']}) listed with {len(xs[i])} sets", ctx={"rules": rules})
    except bb.Aborted as e:
        res.inconclusive = f"aborted: {e}"
    except RuntimeError:
        res.c("runtime_errors")
    res.nontrivial = nt
    if nt and case["rs"] % 40 == 0:
        res.sample = {"rules": rules, "mode": case["mode"], "order": order}
    return res.out()
