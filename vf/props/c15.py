"""C15 — early stops and limit errors leave a valid, resumable diagram (fault enumeration)."""
from __future__ import annotations

import random

from .. import gen, history
from .common import Res, Watch, net_hash, rules_text

LEVEL = "fault_enumeration"
RULE = (
    "per network, for each resumable operation (BFS, DFS, minimal-space with/without skip_ignored, attractor-seed, "
    "target-directed expansion, seeds over all nodes): (a) EVERY size limit 0..|full diagram|+1 and every level/stack "
    "limit 0..depth+1, on a fresh diagram and on a diagram pre-expanded by a random plain prefix; (b) configured "
    "resource limits max_motifs_per_node in {1,2,3} and attractor_candidates_limit in {1,2,3}, relaxed afterwards "
    "through sd.config; (c) an injected solver failure (clingo Control.ground / .solve raising) at EVERY solver call "
    "index k of the operation, counted by a dry run. After each stop/failure: partial-diagram invariants against the "
    "reference diagram, cached attractor data judged against the reference, 'returned False => stubs remain', "
    "'returned True => contract of the strategy holds'; then the operation is repeated without limit/fault and the "
    "result compared (by space: nodes, edges, motifs, flags; seeds literally) with an uninterrupted twin. "
    "non-trivial = network whose full diagram has >= 3 nodes; distinct by rules; evaluations = interrupted runs"
)
ASSUMPTIONS = ["reference model vf/ref.py", "a solver failure is modelled as RuntimeError raised by clingo.Control.ground/solve"]
DEADLINE = 600
OPS = ["bfs", "dfs", "min", "min_skip", "attr", "target"]


def cases(tier, seed):
    rng = random.Random(f"C15/{seed}")
    nmax, count = (6, 280) if tier == "quick" else (8, 2500)
    cl = [("rand", 3), ("gadget", 5), ("inputs", 3), ("dense-neg", 1), ("rand-wide", 1)]
    nets = gen.corpus() + [gen.draw(rng, cl, nmax) for _ in range(count)]
    out = []
    for n in nets:
        if len(n["names"]) > (7 if tier == "quick" else 9):
            continue
        out.append(
            {
                "net": n,
                "cls": n["cls"],
                "target": history.gen_target(rng),
                "prefix": history.gen_history(rng, history.PLAIN, rng.randint(1, 4)),
                "rs": rng.randrange(1 << 30),
            }
        )
    return out


def gate(agg):
    c = agg["cnt"]
    need = ["size_limits_enumerated", "level_limits_enumerated", "fault_points_enumerated", "operations_interrupted", "resumes_compared", "returned_false", "returned_true_contract_checked", "motif_limit_errors", "candidate_limit_errors", "solver_faults_raised", "pre_expanded_runs", "attractor_query_faults", "heuristic_faults_swallowed", "heuristic_runs_under_tight_limits"]
    return [f"monitor counter {k} is zero" for k in need if c.get(k, 0) == 0]


def _solver_used(sd, i):
    """The candidate limit is only consulted when the reduced-STG solver runs: not for fixed-point nodes and
    not for non-minimal nodes with an empty NFVS."""
    d = sd.node_data(i)
    nf = d.get("percolated_nfvs")
    if nf is not None and len(nf) == 0 and d["expanded"] and sd.dag.out_degree(i) > 0:
        return False
    return True


def run_case(case):
    from .. import bb
    from ..instrument import FaultState, install_fault_injector, InjectedSolverFailure
    from ..ref import key, issub, consistent
    from .sdcheck import check_partial, ref_children_map, by_space_dump
    from .c14 import judge_all

    net = case["net"]
    res = Res(case)
    res.hash = net_hash(net)
    res.evals = 0
    ref = bb.ref_of(net)
    rules = rules_text(net)
    W = Watch(res, ref.n)
    install_fault_injector()
    FaultState.fail_at = None
    rsd = ref.succession_diagram()
    rch = ref_children_map(rsd)
    rk, rnodes, redges, mins = rsd
    mins_k = {key(m) for m in mins}
    tgt_named = history.resolve_target(ref, bb.make_sd(net), case["target"])
    tgt = ref.sp(tgt_named)
    atts = ref.attractors()
    att_spaces = {key(ref.trap_closure(a)) for a in atts}

    def run_op(sd, op, size=None, level=None):
        if op == "bfs":
            return sd.expand_bfs(None, level, size)
        if op == "dfs":
            return sd.expand_dfs(None, level, size)
        if op == "min":
            return sd.expand_minimal_spaces(None, size, False)
        if op == "min_skip":
            return sd.expand_minimal_spaces(None, size, True)
        if op == "attr":
            return sd.expand_attractor_seeds(size)
        if op == "target":
            return sd.expand_to_target(tgt_named, size)
        if op == "seeds":
            return [[sorted(x.items()) for x in sd.node_attractor_seeds(i, compute=True)] for i in sd.node_ids()]
        raise ValueError(op)

    def fresh(prefix=None, cfg=None):
        sd = bb.make_sd(net, cfg)
        if prefix:
            for o in prefix:
                history.apply_op(sd, o, ref)
        return sd

    def invariants(sd, tag, ctx, skip_ok=False):
        check_partial(sd, ref, rsd, res, tag, bb, ctx=ctx, rch=rch, skip_ok=skip_ok)
        judge_all(sd, ref, res, tag, bb, ctx)

    def contract_true(sd, op, ctx, level=None):
        """What a True return promises."""
        res.c("returned_true_contract_checked")
        spaces = {bb.kspace(ref, sd.node_data(i)["space"]): i for i in sd.node_ids()}
        if op in ("bfs", "dfs") and level is None:
            if list(sd.stub_ids()):
                res.v(f"true-but-incomplete:{op}", f"{op} returned True but stubs {list(sd.stub_ids())[:5]} remain", ctx=ctx)
        if op in ("min", "min_skip", "attr"):
            got = {bb.kspace(ref, sd.node_data(i)["space"]) for i in sd.minimal_trap_spaces()}
            if got != mins_k:
                res.v(f"true-but-incomplete:{op}", f"{op} returned True with {len(got)} of {len(mins_k)} minimal trap spaces", ctx=ctx)
        if op == "min_skip":
            if list(sd.stub_ids()):
                res.v("true-but-incomplete:min_skip", "expand_minimal_spaces(skip_ignored=True) returned True but stubs remain", ctx=ctx)
        if op == "attr":
            for k in att_spaces:
                i = spaces.get(k)
                if i is None or not sd.node_data(i)["expanded"]:
                    res.v("true-but-incomplete:attr", f"the smallest trap space {ref.named(dict(k))} of an attractor is not an expanded node", ctx=ctx)
                    break
        if op == "target":
            for k, i in spaces.items():
                d = dict(k)
                if consistent(d, tgt) and not issub(d, tgt) and not sd.node_data(i)["expanded"]:
                    res.v("true-but-incomplete:target", f"node {ref.named(d)} is consistent with and not inside the target but unexpanded", ctx=ctx)
                    break

    try:
        # ============================================================ (a) size / level limits
        for pre in (None, case["prefix"]):
            for op in OPS:
                twin = fresh(pre)
                try:
                    rt = W(lambda: run_op(twin, op), nodes=len(twin))
                except AssertionError as e:
                    res.v(f"assertion:{op}", f"uninterrupted {op} raised AssertionError {e}", ctx={"rules": rules, "prefix": pre})
                    continue
                if rt is not True:
                    res.v(f"unlimited-returned-false:{op}", f"{op} without limits returned {rt}", ctx={"rules": rules, "prefix": pre})
                    continue
                tdump = by_space_dump(twin, ref, bb)
                nfull = len(twin)
                if pre is None:
                    res.m("full_nodes", nfull)
                for L in range(0, nfull + 2):
                    ctx = {"rules": rules, "prefix": pre, "op": op, "size_limit": L, "target": tgt_named if op == "target" else None}
                    sd = fresh(pre)
                    res.evals += 1
                    res.c("size_limits_enumerated")
                    if pre is not None:
                        res.c("pre_expanded_runs")
                    try:
                        r1 = W(lambda: run_op(sd, op, size=L), nodes=len(sd))
                    except AssertionError as e:
                        res.v(f"assertion:{op}", f"{op}(size_limit={L}) raised AssertionError {e}", ctx=ctx)
                        continue
                    invariants(sd, f"{op}:size-limit", ctx, skip_ok=(op == "min_skip"))
                    if r1 is False:
                        res.c("returned_false")
                        res.c("operations_interrupted")
                        if not list(sd.stub_ids()):
                            res.v(f"false-without-stubs:{op}:{'fresh' if pre is None else 'pre-expanded'}", f"{op}(size_limit={L}) returned False although no unexpanded node remains", ctx=ctx)
                    elif r1 is True:
                        contract_true(sd, op, ctx)
                    else:
                        res.v(f"return-not-bool:{op}", f"returned {r1!r}", ctx=ctx)
                    try:
                        r2 = W(lambda: run_op(sd, op), nodes=len(sd))
                    except AssertionError as e:
                        res.v(f"assertion-on-resume:{op}", f"{op} resumed after size_limit={L} raised AssertionError {e}", ctx=ctx)
                        continue
                    res.c("resumes_compared")
                    if r2 is not True:
                        res.v(f"resume-returned-false:{op}", f"resumed {op} without limit returned {r2}", ctx=ctx)
                    elif by_space_dump(sd, ref, bb) != tdump:
                        res.v(f"resume-differs:{op}:size", f"{op} stopped at size_limit={L} and resumed differs from an uninterrupted run ({len(sd)} vs {nfull} nodes)", ctx=ctx)
                if op in ("bfs", "dfs"):
                    for lv in range(0, twin.depth() + 2):
                        ctx = {"rules": rules, "prefix": pre, "op": op, "level_or_stack_limit": lv}
                        sd = fresh(pre)
                        res.evals += 1
                        res.c("level_limits_enumerated")
                        r1 = W(lambda: run_op(sd, op, level=lv), nodes=len(sd))
                        invariants(sd, f"{op}:level-limit", ctx)
                        if r1 is False:
                            res.c("operations_interrupted")
                        elif r1 is True:
                            contract_true(sd, op, ctx, level=None)
                        r2 = W(lambda: run_op(sd, op), nodes=len(sd))
                        res.c("resumes_compared")
                        if r2 is not True or by_space_dump(sd, ref, bb) != tdump:
                            res.v(f"resume-differs:{op}:level", f"{op} stopped at level/stack limit {lv} and resumed differs from an uninterrupted run", ctx=ctx)
        # ============================================================ (b) configured resource limits
        twin = fresh()
        W(lambda: twin.expand_bfs())
        tdump = by_space_dump(twin, ref, bb)
        tseeds = W(lambda: run_op(twin, "seeds"), nodes=len(twin))
        for lim in (1, 2, 3):
            ctx = {"rules": rules, "max_motifs_per_node": lim}
            sd = fresh(cfg={"max_motifs_per_node": lim})
            res.evals += 1
            try:
                r = W(lambda: sd.expand_bfs())
                raised = False
            except RuntimeError:
                raised = True
                res.c("motif_limit_errors")
                res.c("operations_interrupted")
            invariants(sd, "bfs:motif-limit", ctx)
            sd.config["max_motifs_per_node"] = 100_000
            r2 = W(lambda: sd.expand_bfs(), nodes=len(sd))
            res.c("resumes_compared")
            if r2 is not True or by_space_dump(sd, ref, bb) != tdump:
                res.v("resume-differs:bfs:motif-limit", f"expand_bfs after a max_motifs_per_node={lim} error and relaxing the limit differs from an uninterrupted run", ctx=ctx)
        for lim in (1, 2, 3):
            # same limit, but every stub's percolated net is cached before it is expanded (the other trappist call site)
            ctx = {"rules": rules, "max_motifs_per_node": lim, "cached_nets": True}
            sd = fresh(cfg={"max_motifs_per_node": lim})
            res.evals += 1
            tried = set()
            while True:
                stubs = [i for i in sd.stub_ids() if i not in tried]
                if not stubs or len(sd) > 200:
                    break
                for i in stubs:
                    tried.add(i)
                    sd.node_percolated_petri_net(i, compute=True)
                    try:
                        W(lambda i=i: sd.node_successors(i, compute=True), nodes=len(sd))
                    except RuntimeError:
                        res.c("motif_limit_errors")
                        res.c("operations_interrupted")
            invariants(sd, "succ:motif-limit:cached-net", ctx)
            sd.config["max_motifs_per_node"] = 100_000
            r2 = W(lambda: sd.expand_bfs(), nodes=len(sd))
            res.c("resumes_compared")
            if r2 is not True or by_space_dump(sd, ref, bb) != tdump:
                res.v("resume-differs:bfs:motif-limit:cached-net", f"expansion with cached nets under max_motifs_per_node={lim}, then relaxed and completed, differs from an uninterrupted run", ctx=ctx)
        for lim in (1, 2, 3):
            ctx = {"rules": rules, "attractor_candidates_limit": lim}
            sd = fresh(cfg={"attractor_candidates_limit": lim, "retained_set_optimization_threshold": 0})
            W(lambda: sd.expand_bfs())
            res.evals += 1
            raised_nodes = []
            for i in sd.node_ids():
                try:
                    W(lambda i=i: sd.node_attractor_seeds(i, compute=True), nodes=len(sd))
                except RuntimeError:
                    raised_nodes.append(i)
                    res.c("candidate_limit_errors")
                    res.c("operations_interrupted")
            invariants(sd, "seeds:candidate-limit", ctx)
            sd.config["attractor_candidates_limit"] = 100_000
            sd.config["retained_set_optimization_threshold"] = 1_000
            s2 = W(lambda: run_op(sd, "seeds"), nodes=len(sd))
            res.c("resumes_compared")
            # nodes whose query raised are recomputed under the relaxed (= default) configuration: literal
            # equality with the uninterrupted twin; nodes answered under the tight configuration may
            # legitimately hold another representative state: same attractors required
            for i in sd.node_ids():
                if i in raised_nodes:
                    if s2[i] != tseeds[i]:
                        res.v("resume-differs:seeds:candidate-limit", f"node {i}: seeds after an attractor_candidates_limit={lim} error and relaxing the limit differ from an uninterrupted run", ctx=ctx, got=str(s2[i])[:300], exp=str(tseeds[i])[:300])
                else:
                    ga = sorted(ref.attractor_of(ref.state_of(dict(x))) or -1 for x in s2[i])
                    ea = sorted(ref.attractor_of(ref.state_of(dict(x))) or -1 for x in tseeds[i])
                    if ga != ea:
                        res.v("seeds-under-tight-config-differ-semantically", f"node {i}: {s2[i]} vs {tseeds[i]}", ctx=ctx)
        # raw candidate path (greedy and simulation off): the solver's own count decides. With N raw candidates,
        # a limit <= N must raise the limit error (and cache nothing), a limit > N must return the same list as
        # an unlimited twin; after relaxing the limit the repeat must equal the twin. Checked on a fully expanded
        # diagram and on an unexpanded root (stubs hold the large candidate sets).
        for shape in ("full", "stub"):
            def mk(cfg=None):
                d = fresh(cfg=cfg)
                if shape == "full":
                    d.expand_bfs()
                return d

            tw2 = mk()
            tcand = [sorted(sorted(x.items()) for x in W(lambda i=i: tw2.node_attractor_candidates(i, compute=True, greedy_asp_minification=False, simulation_minification=False), nodes=len(tw2))) for i in tw2.node_ids()]
            for lim in (1, 2, 3, 4):
                ctx = {"rules": rules, "attractor_candidates_limit": lim, "greedy_asp_minification": False, "simulation_minification": False, "diagram": shape}
                sd = mk(cfg={"attractor_candidates_limit": lim})
                res.evals += 1
                raised_nodes = []
                for i in sd.node_ids():
                    n_raw = len(tcand[i])
                    space_full = len(sd.node_data(i)["space"]) == ref.n
                    try:
                        c1 = W(lambda i=i: sd.node_attractor_candidates(i, compute=True, greedy_asp_minification=False, simulation_minification=False), nodes=len(sd))
                        if n_raw >= lim and not space_full and n_raw > 0 and _solver_used(sd, i):
                            res.v("limit-error-not-raised:cand", f"node {i}: {n_raw} raw candidates, attractor_candidates_limit={lim}, but no error was raised and {len(c1)} candidates were returned", ctx=ctx)
                        elif sorted(sorted(x.items()) for x in c1) != tcand[i]:
                            res.v("candidates-differ-under-limit:cand", f"node {i}: candidate list under a non-binding limit differs from the unlimited one", ctx=ctx)
                    except RuntimeError:
                        raised_nodes.append(i)
                        res.c("candidate_limit_errors")
                        res.c("operations_interrupted")
                        if n_raw < lim:
                            res.v("limit-error-raised-early:cand", f"node {i}: only {n_raw} raw candidates but attractor_candidates_limit={lim} raised", ctx=ctx)
                invariants(sd, "cand:candidate-limit", ctx)
                sd.config["attractor_candidates_limit"] = 100_000
                res.c("resumes_compared")
                for i in raised_nodes:
                    c2 = sorted(sorted(x.items()) for x in W(lambda i=i: sd.node_attractor_candidates(i, compute=True, greedy_asp_minification=False, simulation_minification=False), nodes=len(sd)))
                    if c2 != tcand[i]:
                        res.v("resume-differs:cand:candidate-limit", f"node {i}: raw candidates after an attractor_candidates_limit={lim} error and relaxing the limit differ from an uninterrupted run", ctx=ctx)
        # ============================================================ (c) solver failure at every call index
        for op in OPS + ["seeds"]:
            def base():
                sd = fresh()
                if op == "seeds":
                    sd.expand_bfs()
                return sd

            twin = base()
            FaultState.calls = 0
            FaultState.fail_at = None
            rt = W(lambda: run_op(twin, op), nodes=len(twin))
            K = FaultState.calls
            tdump = by_space_dump(twin, ref, bb)
            ks = list(range(1, K + 1))
            if len(ks) > 60:
                rr = random.Random(case["rs"])
                ks = sorted(set(ks[:20] + ks[-10:] + rr.sample(ks, 30)))
            for k in ks:
                ctx = {"rules": rules, "op": op, "fail_at_solver_call": k, "of": K}
                sd = base()
                FaultState.calls = 0
                FaultState.fail_at = k
                res.evals += 1
                res.c("fault_points_enumerated")
                raised = False
                try:
                    W(lambda: run_op(sd, op), nodes=len(sd))
                except InjectedSolverFailure:
                    raised = True
                    res.c("solver_faults_raised")
                    res.c("operations_interrupted")
                    if op == "seeds":
                        res.c("attractor_query_faults")
                except RuntimeError as e:
                    res.c("other_runtime_errors")
                except AssertionError as e:
                    res.v(f"assertion-under-fault:{op}", f"{op} with solver failure at call {k} raised AssertionError {e}", ctx=ctx)
                finally:
                    FaultState.fail_at = None
                if not raised:
                    res.c("faults_swallowed_or_unreached")
                invariants(sd, f"{op}:solver-fault", ctx, skip_ok=(op == "min_skip"))
                try:
                    r2 = W(lambda: run_op(sd, op), nodes=len(sd))
                except AssertionError as e:
                    res.v(f"assertion-on-resume:{op}", f"{op} repeated after a solver failure at call {k} raised AssertionError {e}", ctx=ctx)
                    continue
                res.c("resumes_compared")
                if op == "seeds":
                    if r2 != rt:
                        res.v("resume-differs:seeds:solver-fault", f"seeds repeated after a solver failure at call {k} differ from an uninterrupted run", ctx=ctx, got=str(r2)[:300], exp=str(rt)[:300])
                elif r2 is not True or by_space_dump(sd, ref, bb) != tdump:
                    res.v(f"resume-differs:{op}:solver-fault", f"{op} repeated after a solver failure at call {k}/{K} differs from an uninterrupted run", ctx=ctx)
        # ============================================================ (d) heuristic strategies swallow some failures
        # expand_block / expand_scc catch RuntimeError in their motif-avoidance checks. Whether the failure is an
        # injected solver fault or a configured limit, what they cache ("no attractor here") must still be right.
        for op in ("block", "scc"):
            def runh(sd):
                return sd.expand_block() if op == "block" else sd.expand_scc()

            FaultState.calls = 0
            FaultState.fail_at = None
            tw = fresh()
            W(lambda: runh(tw), nodes=len(tw))
            K = FaultState.calls
            ks = list(range(1, K + 1))
            if len(ks) > 40:
                rr = random.Random(case["rs"] + 7)
                ks = sorted(set(ks[:15] + rr.sample(ks, 25)))
            for k in ks:
                ctx = {"rules": rules, "op": op, "fail_at_solver_call": k, "of": K}
                sd = fresh()
                FaultState.calls = 0
                FaultState.fail_at = k
                res.evals += 1
                res.c("fault_points_enumerated")
                try:
                    W(lambda: runh(sd), nodes=len(sd))
                    res.c("heuristic_faults_swallowed")
                except RuntimeError:
                    res.c("solver_faults_raised")
                except AssertionError as e:
                    res.v(f"assertion-under-fault:{op}", f"{op} with solver failure at call {k} raised AssertionError {e}", ctx=ctx)
                finally:
                    FaultState.fail_at = None
                judge_all(sd, ref, res, f"{op}:solver-fault", bb, ctx)
            for cfg in ({"attractor_candidates_limit": 1, "retained_set_optimization_threshold": 1}, {"attractor_candidates_limit": 2, "retained_set_optimization_threshold": 0}):
                ctx = {"rules": rules, "op": op, "config": cfg}
                sd = fresh(cfg=cfg)
                res.evals += 1
                try:
                    W(lambda: runh(sd), nodes=len(sd))
                    res.c("heuristic_runs_under_tight_limits")
                except RuntimeError:
                    res.c("operations_interrupted")
                judge_all(sd, ref, res, f"{op}:candidate-limit", bb, ctx)
    except bb.Aborted as e:
        res.inconclusive = f"aborted: {e}"
    finally:
        FaultState.fail_at = None
    res.nontrivial = len(rnodes) >= 3
    if res.nontrivial and case["rs"] % 20 == 0:
        res.sample = {"rules": rules, "full_nodes": len(rnodes), "interrupted_runs": res.evals}
    return res.out()
