"""C18 — results compose across independent and input-conditioned sub-networks."""
from __future__ import annotations

import itertools
import random

from .. import gen
from .common import Res, Watch, net_hash, rules_text

LEVEL = "exploration"
RULE = (
    "(union) disjoint unions of two generated networks (n1+n2 <= 10): minimal trap spaces and attractor sets after "
    "build() vs the pairwise products of those of the parts (reference model of each part); (inputs) networks with 1-3 "
    "source variables: for EVERY valuation of all sources, the BFS diagram of the network with the sources fixed vs the "
    "part of the free-input BFS diagram below the node of that valuation (nodes, edges, motif sets by space; attractor "
    "sets); (models) repository models: build() seeds must be in bijection with an independent attractor computation "
    "(explicit model <= 16 variables, AEON Attractors.attractors above; per-model wall budget, unprocessed models are "
    "counted, not failed). non-trivial = product with >= 4 attractors / valuation sub-diagram with >= 2 nodes / model "
    "with >= 2 attractors; distinct by rules"
)
ASSUMPTIONS = ["reference model vf/ref.py (parts / models <= 16 variables)", "AEON Attractors.attractors is trusted as second implementation on larger models (declared per evidence counter models_checked_with_aeon)"]
DEADLINE = 300


def cases(tier, seed):
    rng = random.Random(f"C18/{seed}")
    nu, ni, mmax, mdead = (2500, 2000, 20, 120) if tier == "quick" else (15000, 12000, 400, 300)
    cl = [("rand", 3), ("gadget", 4), ("dense-neg", 2), ("inputs", 1)]
    out = []
    for _ in range(nu):
        a, b = gen.draw(rng, cl, 5), gen.draw(rng, cl, 5)
        out.append({"mode": "union", "a": a, "b": b, "cls": "union", "rs": rng.randrange(1 << 30)})
    for c in gen.corpus():
        if len(c["names"]) <= 5:
            out.append({"mode": "union", "a": c, "b": gen.draw(rng, cl, 5), "cls": "union", "rs": rng.randrange(1 << 30)})
    for _ in range(ni):
        if rng.random() < 0.3:
            out.append({"mode": "inputs", "net": gen.cond_maa(rng, 7), "cls": "cond-maa", "rs": rng.randrange(1 << 30)})
            continue
        base = gen.draw(rng, [("gadget", 4), ("rand", 3), ("overlap-maa", 0.3)], 7)
        k = rng.randint(1, 3)
        out.append({"mode": "inputs", "net": gen.with_inputs(rng, base, k), "cls": "inputs", "rs": rng.randrange(1 << 30)})
    for f in gen.models_up_to(mmax):
        out.append({"mode": "model", "model": f, "cls": "model", "rs": rng.randrange(1 << 30), "deadline": mdead})
        if gen.model_sizes()[f] <= (12 if tier == "quick" else 14):
            out.append({"mode": "model-inputs", "model": f, "cls": "model", "rs": rng.randrange(1 << 30), "deadline": mdead})
    return out


def gate(agg):
    c = agg["cnt"]
    need = ["unions_compared", "product_attractors", "input_valuations_compared", "subdiagram_nodes_compared", "models_checked_with_reference", "models_checked_with_aeon", "model_attractors_matched"]
    return [f"monitor counter {k} is zero" for k in need if c.get(k, 0) == 0]


def run_case(case):
    from .. import bb

    res = Res(case)
    mode = case["mode"]
    if mode == "union":
        return _union(case, res, bb)
    if mode == "inputs":
        return _inputs(case["net"], case, res, bb)
    if mode == "model-inputs":
        rng = random.Random(case["rs"])
        net = gen.model_net(case["model"])
        if len(net["names"]) > 14:
            res.inconclusive = "too-large-for-input-check"
            return res.out()
        return _inputs(gen.with_inputs(rng, net, rng.randint(1, 2)), case, res, bb)
    return _model(case, res, bb)


def _union(case, res, bb):
    from ..ref import key

    a, b = case["a"], case["b"]
    u = gen.union(a, b)
    res.hash = net_hash(u)
    ra, rb = bb.ref_of(a), bb.ref_of(b)
    ru = bb.ref_of(u)  # only for name/index conversions and state encoding
    na = ra.n
    rules = rules_text(u)
    W = Watch(res, ru.n)
    try:
        sd = bb.make_sd(u)
        W(lambda: sd.build())
        mins = sorted(bb.kspace(ru, sd.node_data(i)["space"]) for i in sd.minimal_trap_spaces())
        sets = W(lambda: sd.expanded_attractor_sets(), nodes=len(sd))
    except bb.Aborted as e:
        res.inconclusive = f"aborted: {e}"
        return res.out()
    ctx = {"rules": rules}
    # expected products (indices of b shifted by na)
    exp_mins = sorted(key({**ma, **{i + na: v for i, v in mb.items()}}) for ma in ra.min_traps() for mb in rb.min_traps())
    if mins != exp_mins:
        res.v("union-minimal-trap-spaces", f"{len(mins)} minimal trap spaces, the product of the parts has {len(exp_mins)}", ctx=ctx)
    exp_att = set()
    for A in ra.attractors():
        sa = ra.states(A)
        for B in rb.attractors():
            sb = rb.states(B)
            exp_att.add(frozenset(x | (y << na) for x in sa for y in sb))
    got_att = []
    for ss in sets.values():
        for vs in ss:
            st, pr = bb.vset_states(ru, vs)
            got_att.append(frozenset(st))
    res.c("unions_compared")
    res.c("product_attractors", len(exp_att))
    if len(set(got_att)) != len(got_att):
        res.v("union-attractor-reported-twice", "an attractor of the union is reported twice", ctx=ctx)
    if set(got_att) != exp_att:
        res.v("union-attractors", f"{len(set(got_att))} attractors, the product of the parts has {len(exp_att)}; missing {len(exp_att - set(got_att))}, unexpected {len(set(got_att) - exp_att)}", ctx=ctx)
    # the same union through source-SCC expansion (every part is a separate set of source SCCs): nothing missing,
    # nothing spurious; duplicates are judged by C01
    try:
        sd2 = bb.make_sd(u)
        if W(lambda: sd2.expand_scc()) is not True:
            res.v("union-scc-not-complete", "expand_scc() on the union did not report completion", ctx=ctx)
        else:
            mins2 = sorted(bb.kspace(ru, sd2.node_data(i)["space"]) for i in sd2.minimal_trap_spaces())
            if mins2 != exp_mins:
                res.v("union-minimal-trap-spaces:scc", f"{len(mins2)} minimal trap spaces after expand_scc(), the product has {len(exp_mins)}", ctx=ctx)
            sets2 = W(lambda: sd2.expanded_attractor_sets(), nodes=len(sd2))
            got2 = {frozenset(bb.vset_states(ru, vs)[0]) for ss in sets2.values() for vs in ss}
            res.c("unions_compared_scc")
            if got2 != exp_att:
                res.v("union-attractors:scc", f"expand_scc(): {len(got2)} distinct attractors, the product of the parts has {len(exp_att)}; missing {len(exp_att - got2)}, unexpected {len(got2 - exp_att)}", ctx=ctx)
    except bb.Aborted as e:
        res.inconclusive = f"aborted: {e}"
    res.nontrivial = len(exp_att) >= 4
    if res.nontrivial and case["rs"] % 40 == 0:
        res.sample = {"rules": rules, "product_attractors": len(exp_att), "product_min_traps": len(exp_mins)}
    return res.out()


def _sub_dump(sd, start, conv):
    seen = {start}
    st = [start]
    out = []
    while st:
        i = st.pop()
        succ = list(sd.dag.successors(i))
        out.append(
            (
                conv(sd.node_data(i)["space"]),
                bool(sd.node_data(i)["expanded"]),
                tuple(sorted((conv(sd.node_data(j)["space"]), tuple(sorted(conv(m) for m in sd.edge_all_stable_motifs(i, j)))) for j in succ)),
            )
        )
        for j in succ:
            if j not in seen:
                seen.add(j)
                st.append(j)
    return sorted(out), seen


def _compare_with_fixed(net, srcs, how, res, bb, W, conv, rules):
    """Free-input network through expand_scc() / build() vs the union over all input valuations of the results of the
    networks with the inputs fixed (minimal trap spaces, attractor sets as sets; duplicates are C01's business)."""
    sdS = bb.make_sd(net)
    if how == "scc":
        if W(lambda: sdS.expand_scc()) is not True:
            return
    else:
        W(lambda: sdS.build())
    gotm = {conv(sdS.node_data(i)["space"]) for i in sdS.minimal_trap_spaces()}
    gota = set()
    for ss in W(lambda: sdS.expanded_attractor_sets(), nodes=len(sdS)).values():
        for vs in ss:
            gota.add(frozenset(tuple(sorted((k, int(v)) for k, v in m.to_named_dict().items())) for m in vs.items()))
    expm, expa = set(), set()
    for vals in itertools.product([0, 1], repeat=len(srcs)):
        fx = bb.make_sd(gen.fix_vars(net, dict(zip(srcs, vals))))
        W(lambda: fx.expand_bfs())
        for i in fx.minimal_trap_spaces():
            expm.add(conv(fx.node_data(i)["space"]))
        for ss in W(lambda: fx.expanded_attractor_sets(), nodes=len(fx)).values():
            for vs in ss:
                expa.add(frozenset(tuple(sorted((k, int(v)) for k, v in m.to_named_dict().items())) for m in vs.items()))
    res.c(f"{how}_input_unions_compared")
    if gotm != expm:
        res.v(f"{how}-inputs-minimal-trap-spaces", f"{how}: {len(gotm)} minimal trap spaces, the fixed-input networks have {len(expm)} in total (missing {len(expm - gotm)}, spurious {len(gotm - expm)})", ctx={"rules": rules})
    if gota != expa:
        res.v(f"{how}-inputs-attractors", f"{how}: {len(gota)} attractors, the fixed-input networks have {len(expa)} in total (missing {len(expa - gota)}, spurious {len(gota - expa)})", ctx={"rules": rules})


def _inputs(net, case, res, bb):
    from biobalm.interaction_graph_utils import source_nodes

    res.hash = net_hash(net) + "inputs"
    big = len(net["names"]) > 10
    rules = rules_text(net) if not big else net["cls"]
    W = Watch(res, min(len(net["names"]), 14))
    names = net["names"]
    idx = {n: i for i, n in enumerate(names)}
    conv = lambda sp: tuple(sorted((idx[k], v) for k, v in sp.items()))  # noqa: E731
    try:
        sdF = bb.make_sd(net)
        if not W(lambda: sdF.expand_bfs(size_limit=3000)):
            res.inconclusive = "free-input-diagram-too-large"
            return res.out()
        srcs = source_nodes(sdF.network)
        if not srcs or len(srcs) > 4:
            res.inconclusive = None if srcs else None
            res.c("no_sources" if not srcs else "too_many_sources")
            return res.out()
        nt = False
        for vals in itertools.product([0, 1], repeat=len(srcs)):
            val = dict(zip(srcs, vals))
            fixed = gen.fix_vars(net, val)
            sdX = bb.make_sd(fixed)
            W(lambda: sdX.expand_bfs())
            rootX = sdX.node_data(0)["space"]
            nid = sdF.find_node(rootX)
            ctx = {"rules": rules, "valuation": val}
            res.c("input_valuations_compared")
            if nid is None:
                res.v("no-node-for-valuation", f"the free-input diagram has no node with space {rootX} (percolation of the valuation)", ctx=ctx)
                continue
            dF, seenF = _sub_dump(sdF, nid, conv)
            dX, _ = _sub_dump(sdX, 0, conv)
            res.c("subdiagram_nodes_compared", len(dX))
            if len(dX) >= 2:
                nt = True
            if [x[:2] for x in dF] != [x[:2] for x in dX] or [tuple(c for c, _ in x[2]) for x in dF] != [tuple(c for c, _ in x[2]) for x in dX]:
                res.v("input-subdiagram-differs", f"sub-diagram below the valuation node has {len(dF)} nodes, the diagram of the fixed network {len(dX)}; nodes/edges differ", ctx=ctx)
            elif dF != dX:
                res.v("input-subdiagram-motifs-differ", "motif sets differ between the sub-diagram and the diagram of the fixed network", ctx=ctx)
            # attractors
            aF = set()
            dup = False
            for i in sorted(seenF):
                for vs in W(lambda i=i: sdF.node_attractor_sets(i, compute=True), nodes=len(sdF)):
                    k = frozenset(tuple(sorted(m.to_named_dict().items())) for m in vs.items())
                    dup = dup or k in aF
                    aF.add(k)
            aX = set()
            for i in sdX.node_ids():
                for vs in W(lambda i=i: sdX.node_attractor_sets(i, compute=True), nodes=len(sdX)):
                    aX.add(frozenset(tuple(sorted(m.to_named_dict().items())) for m in vs.items()))
            norm = lambda S: {frozenset(tuple((k, int(v)) for k, v in st) for st in a) for a in S}  # noqa: E731
            if norm(aF) != norm(aX):
                res.v("input-attractors-differ", f"{len(aF)} attractors below the valuation node vs {len(aX)} in the fixed network", ctx=ctx)
        # source-SCC expansion treats every input valuation separately: its minimal trap spaces and attractors must
        # be the union over the valuations of those of the fixed networks (duplicates are C01's business)
        if not big:
            for how in ("scc", "build"):
                _compare_with_fixed(net, srcs, how, res, bb, W, conv, rules)
        res.nontrivial = nt
    except bb.Aborted as e:
        res.inconclusive = f"aborted: {e}"
    if res.nontrivial and case["rs"] % 40 == 0:
        res.sample = {"rules": rules, "sources": list(srcs)}
    return res.out()


def _model(case, res, bb):
    import os
    from biodivine_aeon import AsynchronousGraph, Attractors
    from biobalm import SuccessionDiagram

    f = case["model"]
    res.hash = f
    net = gen.model_net(f)
    n = len(net["names"])
    sd = SuccessionDiagram.from_file(os.path.join(gen.MODELS_DIR, f))
    sd.build()
    seeds = sd.expanded_attractor_seeds()
    flat = [(i, s) for i, ss in seeds.items() for s in ss]
    ctx = {"model": f, "variables": n}
    if n <= 16:
        ref = bb.ref_of(net)
        atts = ref.attractors()
        hit = {}
        for i, s in flat:
            a = ref.attractor_of(ref.state_of(s)) if bb.is_full_state(ref, s) else None
            if a is None:
                res.v("model-seed-not-in-attractor", f"{f}: node {i} seed lies in no attractor", ctx=ctx)
                continue
            hit[a] = hit.get(a, 0) + 1
        for a in atts:
            if hit.get(a, 0) != 1:
                res.v("model-attractor-seed-count", f"{f}: an attractor with {a.bit_count()} states has {hit.get(a, 0)} seeds", ctx=ctx)
            else:
                res.c("model_attractors_matched")
        res.c("models_checked_with_reference")
        natt = len(atts)
    else:
        stg = AsynchronousGraph(sd.network)
        sym = Attractors.attractors(stg, stg.mk_unit_colored_vertices())
        used = [0] * len(sym)
        for i, s in flat:
            ss = stg.mk_subspace(s)
            found = [j for j in range(len(sym)) if ss.is_subset(sym[j])]
            if len(found) != 1:
                res.v("model-seed-not-in-attractor", f"{f}: node {i} seed lies in {len(found)} symbolic attractors", ctx=ctx)
                continue
            used[found[0]] += 1
        for j, u in enumerate(used):
            if u != 1:
                res.v("model-attractor-seed-count", f"{f}: symbolic attractor #{j} has {u} seeds", ctx=ctx)
            else:
                res.c("model_attractors_matched")
        res.c("models_checked_with_aeon")
        natt = len(sym)
    res.m("model_variables", n)
    res.nontrivial = natt >= 2
    if case["rs"] % 8 == 0:
        res.sample = {"model": f, "variables": n, "attractors": natt, "nodes": len(sd)}
    return res.out()
