"""C20 — reported diagram metadata is accurate."""
from __future__ import annotations

import hashlib
import json
import random
import re

from .. import gen, history
from .common import Res, Watch, net_hash, rules_text

LEVEL = "exploration"
RULE = (
    "random histories over the full API (biased to rediscovering existing nodes through longer paths: DFS/BFS from "
    "inner nodes, minimal-space expansion from stubs, skipping, SCC/block shortcuts). After EVERY call: "
    "node_data(i)['depth'] vs networkx longest root->i path on the live DAG, depth() vs the maximum, ids 0..len-1, "
    "find_node on every node space / sub- and super-spaces / random spaces / unknown variables; at the end "
    "is_subgraph and is_isomorphic between the history diagram, a partial, a full and a skip-completed diagram of the "
    "same network vs inclusion of node-space and edge sets. Separately build() on fresh diagrams: the parsed summary() "
    "must list every reference attractor exactly once, each block labelled 'minimal trap space' iff the printed space "
    "is a reference minimal trap space, header counts = len()/depth(). non-trivial = diagram with a node of in-degree "
    ">= 2 whose depth exceeds the depth of its first parent + 1, or a summary with >= 2 attractors; distinct by "
    "rules+history"
)
ASSUMPTIONS = ["networkx longest-path on the live DAG; reference model vf/ref.py for attractors / minimal trap spaces"]
DEADLINE = 300

WEIGHTS = {
    "bfs": 4, "dfs": 4, "min": 3, "min_skip": 2, "attr": 2, "target": 2, "block_plain": 1, "block": 2, "scc": 2,
    "succ": 4, "skip": 2, "skiprem": 1, "seeds": 1, "pickle": 1, "control": 1,
}


def cases(tier, seed):
    rng = random.Random(f"C20/{seed}")
    nmax, count, nb = (7, 8000, 2500) if tier == "quick" else (8, 40000, 12000)
    cl = [("gadget", 5), ("inputs", 3), ("rand", 3), ("overlap-maa", 0.5), ("dense-neg", 1)]
    nets = gen.corpus() + [gen.draw(rng, cl, nmax) for _ in range(count)]
    kinds = list(WEIGHTS)
    w = [WEIGHTS[k] for k in kinds]
    out = []
    for n in gen.corpus():
        for rep in range(60 if len(n["names"]) <= 7 else 6):
            # node-by-node expansion: every call expands one of the current stubs, in a random order
            out.append({"net": n, "cls": n["cls"], "mode": "history", "history": [["succstub", rng.randrange(1 << 16)] for _ in range(rng.randint(6, 30))], "rs": rng.randrange(1 << 30)})
    for n in nets:
        if rng.random() < 0.4:
            # node-by-node expansion in a random order (depth has to be raised through later, longer paths)
            h = [[rng.choice(["succ", "succstub", "succstub"]), rng.randrange(1 << 16)] for _ in range(rng.randint(6, 24))]
        else:
            h = history.gen_history(rng, kinds, rng.randint(3, 10), w)
        out.append({"net": n, "cls": n["cls"], "mode": "history", "history": h, "rs": rng.randrange(1 << 30)})
    for f in gen.models_up_to(10 if tier == "quick" else 20):
        for rep in range(2):
            out.append({"net": gen.model_net(f), "cls": "model", "mode": "history", "history": history.gen_history(rng, ["bfs", "dfs", "succ", "min"], rng.randint(4, 10)), "rs": rng.randrange(1 << 30), "big": True, "deadline": 60})
    bl = [("gadget", 5), ("inputs", 3), ("rand", 2), ("overlap-maa", 0.5)]
    bnets = gen.corpus() + [gen.draw(rng, bl, nmax) for _ in range(nb)]
    for n in bnets:
        out.append({"net": n, "cls": n["cls"], "mode": "build", "rs": rng.randrange(1 << 30)})
    for _ in range(nb // 5):
        a, b = gen.draw(rng, bl, 4), gen.draw(rng, bl, 4)
        out.append({"net": gen.union(a, b), "cls": "union", "mode": "build", "rs": rng.randrange(1 << 30)})
    return out


def gate(agg):
    c = agg["cnt"]
    need = ["calls", "depth_checks", "nodes_with_two_parents", "depth_raised_through_later_path", "find_node_positive", "find_node_negative", "subgraph_pairs", "summaries_parsed", "summary_attractors", "summary_maa_blocks", "builds_with_stubs"]
    return [f"monitor counter {k} is zero" for k in need if c.get(k, 0) == 0]


def check_meta(sd, res, tag, ctx, rng, names):
    import networkx as nx

    n = len(sd)
    ids = list(sd.node_ids())
    if ids != list(range(n)) or sorted(sd.dag.nodes()) != ids:
        res.v(f"ids-not-contiguous:{tag}", f"node_ids {ids[:10]} dag nodes {sorted(sd.dag.nodes())[:10]}", ctx=ctx)
        return
    if sd.root() != 0 or n != sd.dag.number_of_nodes():
        res.v(f"root-or-len:{tag}", "root() != 0 or len() != node count", ctx=ctx)
    # longest path from the root (nodes not reachable from the root keep depth 0)
    depth = {}
    try:
        order = list(nx.topological_sort(sd.dag))
    except nx.NetworkXUnfeasible:
        res.v(f"diagram-has-cycle:{tag}", "the diagram is not acyclic", ctx=ctx)
        return
    reach = {0} | nx.descendants(sd.dag, 0)
    for u in order:
        if u == 0:
            depth[u] = 0
        preds = [p for p in sd.dag.predecessors(u) if p in depth and (p in reach)]
        if u in reach and u != 0:
            depth[u] = 1 + max(depth[p] for p in preds)
        elif u != 0:
            # not reachable from the root (added without a parent): longest path from any source
            ps = [depth[p] for p in sd.dag.predecessors(u) if p in depth]
            depth[u] = 1 + max(ps) if ps else 0
    bad = None
    for i in ids:
        res.c("depth_checks")
        if sd.node_data(i)["depth"] != depth[i] and bad is None:
            bad = i
    if bad is not None:
        via = "reachable" if bad in reach else "unreachable-from-root"
        res.v(
            f"depth-not-longest-path:{via}",
            f"after {tag}: node {bad} reports depth {sd.node_data(bad)['depth']}, longest path from the root has length {depth[bad]}",
            ctx=ctx,
        )
    if sd.depth() != max(sd.node_data(i)["depth"] for i in ids):
        res.v(f"depth()-not-max:{tag}", f"depth() = {sd.depth()}", ctx=ctx)
    two = [i for i in ids if sd.dag.in_degree(i) >= 2]
    res.c("nodes_with_two_parents", len(two))
    for i in two:
        fp = sd.node_data(i)["parent_node"]
        if fp is not None and depth[i] > depth.get(fp, 0) + 1:
            res.c("depth_raised_through_later_path")
    # find_node
    spaces = {}
    for i in ids:
        sp = sd.node_data(i)["space"]
        got = sd.find_node(dict(sp))
        res.c("find_node_positive")
        if got != i and tuple(sorted(sp.items())) not in spaces:
            res.v(f"find_node-wrong:{tag}", f"find_node({sp}) = {got}, the node with that space is {i}", ctx=ctx)
        spaces.setdefault(tuple(sorted(sp.items())), i)
    for _ in range(6):
        kind = rng.choice(["rand", "sub", "super", "unknown"])
        base = dict(sd.node_data(rng.choice(ids))["space"])
        if kind == "rand":
            q = {v: rng.randint(0, 1) for v in names if rng.random() < 0.4}
        elif kind == "sub":
            free = [v for v in names if v not in base]
            if not free:
                continue
            q = dict(base)
            q[rng.choice(free)] = rng.randint(0, 1)
        elif kind == "super":
            if not base:
                continue
            q = dict(base)
            q.pop(rng.choice(sorted(q)))
        else:
            q = dict(base)
            q["no_such_variable_" + str(rng.randrange(100))] = 1
        exp = spaces.get(tuple(sorted(q.items())))
        try:
            got = sd.find_node(q)
        except Exception as e:
            res.v(f"find_node-raised:{kind}", f"find_node({q}) raised {type(e).__name__}: {e}", ctx=ctx)
            continue
        if exp is None:
            res.c("find_node_negative")
        if got != exp:
            res.v(f"find_node-wrong:{kind}", f"find_node({q}) = {got}, expected {exp}", ctx=ctx)


def sub_oracle(a, b):
    """node spaces of a within those of b and edges of a within edges of b (by space)."""
    def nodes(sd):
        return {tuple(sorted(sd.node_data(i)["space"].items())) for i in sd.node_ids()}

    def edges(sd):
        return {(tuple(sorted(sd.node_data(u)["space"].items())), tuple(sorted(sd.node_data(v)["space"].items()))) for u, v in sd.dag.edges()}

    return nodes(a) <= nodes(b) and edges(a) <= edges(b)


def run_case(case):
    from .. import bb

    res = Res(case)
    net = case["net"]
    if case["mode"] == "build":
        return _build(case, res, bb)
    res.hash = hashlib.sha1((net_hash(net) + json.dumps(case["history"])).encode()).hexdigest()[:16]
    big = case.get("big") or len(net["names"]) > 9
    rules = rules_text(net) if not big else net["cls"]
    if big:
        from .c04 import NameRef

        ref = NameRef(net["names"])
    else:
        ref = bb.ref_of(net)
    rng = random.Random(case["rs"])
    W = Watch(res, min(len(net["names"]), 14))
    hist = [op for op in case["history"] if not (big and op[0] in ("target", "control"))]
    try:
        sd = bb.make_sd(net)
        done = []
        for op in hist:
            if big and op[0] in ("bfs", "dfs", "min") and op[-1 if op[0] != "min" else 2] is None:
                op = list(op)
                op[-1 if op[0] != "min" else 2] = ["rel", 5]
            holder = {}

            def f(op=op):
                holder["sd"], holder["r"] = history.apply_op(sd, op, ref)

            W(f, nodes=len(sd))
            sd = holder["sd"]
            done.append(op)
            res.c("calls")
            check_meta(sd, res, op[0], {"rules": rules, "history": done}, rng, net["names"])
            if res.viol:
                break
        if not res.viol and not big and any(op[0] in ("skip", "skiprem", "seeds", "min") for op in hist):
            # the summary of whatever has been built and searched so far: no attractor twice (unless the network has
            # a motif-avoidant attractor, which skip nodes may over-count), every label right
            try:
                W(lambda: sd.build(), nodes=len(sd))
                _judge_summary(sd, ref, res, {"rules": rules, "history": done + [["build"]]}, bb, complete=False)
                res.c("history_summaries_parsed")
            except RuntimeError:
                pass
        if not res.viol and not big:
            # subgraph / isomorphism between diagrams of the same network
            others = []
            p = bb.make_sd(net)
            W(lambda: p.expand_bfs(size_limit=rng.randint(1, 6)))
            others.append(("partial", p))
            fl = bb.make_sd(net)
            W(lambda: fl.expand_bfs())
            others.append(("full", fl))
            sk = bb.make_sd(net)
            W(lambda: sk.expand_dfs(size_limit=rng.randint(1, 4)))
            W(lambda: sk.skip_remaining())
            others.append(("skipped", sk))
            others.append(("history", sd))
            for na, a in others:
                for nb_, b in others:
                    exp = sub_oracle(a, b)
                    got = a.is_subgraph(b)
                    res.c("subgraph_pairs")
                    if got != exp:
                        res.v(f"is_subgraph-wrong:{na}-in-{nb_}", f"is_subgraph = {got}, node/edge inclusion = {exp}", ctx={"rules": rules, "history": done})
                    iso = a.is_isomorphic(b)
                    if iso != (exp and sub_oracle(b, a)):
                        res.v(f"is_isomorphic-wrong:{na}-{nb_}", f"is_isomorphic = {iso}", ctx={"rules": rules, "history": done})
    except bb.Aborted as e:
        res.inconclusive = f"aborted: {e}"
    res.nontrivial = res.cnt.get("depth_raised_through_later_path", 0) > 0
    if res.nontrivial and case["rs"] % 60 == 0:
        res.sample = {"rules": rules, "history": hist}
    return res.out()


HEADER = re.compile(r"^Succession Diagram with (\d+) nodes and depth (\d+)\.$")


def _judge_summary(sd, ref, res, ctx, bb, complete=True):
    """Parse summary() and judge it against the reference. complete=False (arbitrary history): attractors may be
    missing (unexpanded parts), and may be listed twice only if the network has a motif-avoidant attractor."""
    text = sd.summary()
    ctx = dict(ctx, summary=text)
    lines = text.split("\n")
    m = HEADER.match(lines[0])
    if not m or int(m.group(1)) != len(sd) or int(m.group(2)) != sd.depth():
        res.v("summary-header", f"header {lines[0]!r} vs len {len(sd)} depth {sd.depth()}", ctx=ctx)
    order = sorted(ref.names)
    if lines[1] != "State order: " + ", ".join(order):
        res.v("summary-state-order", lines[1], ctx=ctx)
    mins = {tuple(sorted(ref.named(mn).items())) for mn in ref.min_traps()}
    atts = ref.attractors()
    maa = ref.has_maa()
    count = {a: 0 for a in atts}
    block = None
    skip_block = False
    for ln in lines[2:]:
        if ln.startswith("minimal trap space ") or ln.startswith("motif avoidance in "):
            label, sp_s = ln[:19], ln[19:]
            if len(sp_s) != len(order) or any(ch not in "01*" for ch in sp_s):
                res.v("summary-space-line", ln, ctx=ctx)
                block = None
                continue
            sp = {v: int(ch) for v, ch in zip(order, sp_s) if ch != "*"}
            is_min = tuple(sorted(sp.items())) in mins
            if not complete:
                # arbitrary history: a block printed for a node that is still unexpanded (queried as a stub) is outside
                # the statement (the diagram cannot know yet whether the stub is minimal, and stubs legitimately repeat
                # attractors found elsewhere): such blocks are skipped
                nid = sd.find_node(sp)
                if nid is None or not sd.node_data(nid)["expanded"]:
                    block = None
                    skip_block = True
                    continue
            skip_block = False
            if (label == "minimal trap space ") != is_min:
                res.v(
                    "summary-label-wrong:" + ("minimal-labelled-maa" if is_min else "non-minimal-labelled-minimal"),
                    f"block {ln!r}: the printed space is {'a' if is_min else 'not a'} minimal trap space",
                    ctx=ctx,
                )
            if label != "minimal trap space ":
                res.c("summary_maa_blocks")
            block = sp
        elif ln.startswith("." * 19):
            st_s = ln[19:]
            if block is None and skip_block:
                continue
            if block is None or len(st_s) != len(order) or any(ch not in "01" for ch in st_s):
                res.v("summary-attractor-line", ln, ctx=ctx)
                continue
            st = {v: int(ch) for v, ch in zip(order, st_s)}
            a = ref.attractor_of(ref.state_of(st))
            if a is None:
                res.v("summary-state-not-in-attractor", ln, ctx=ctx)
                continue
            if not ref.attractor_in_space(a, ref.sp(block)):
                res.v("summary-attractor-outside-block-space", ln, ctx=ctx)
            count[a] += 1
            res.c("summary_attractors")
    for a, k in count.items():
        if k == 0 and complete:
            res.v("summary-attractor-missing", f"attractor {ref.states(a)[:6]} is not listed", ctx=ctx)
        elif k > 1 and (complete or not maa):
            res.v("summary-attractor-listed-twice", f"attractor {ref.states(a)[:6]} is listed {k} times", ctx=ctx)
    return atts


def _build(case, res, bb):
    net = case["net"]
    res.hash = net_hash(net) + "build"
    ref = bb.ref_of(net)
    rules = rules_text(net)
    W = Watch(res, ref.n)
    try:
        sd = bb.make_sd(net)
        W(lambda: sd.build())
        text = sd.summary()
    except bb.Aborted as e:
        res.inconclusive = f"aborted: {e}"
        return res.out()
    if list(sd.stub_ids()):
        res.c("builds_with_stubs")
    atts = _judge_summary(sd, ref, res, {"rules": rules}, bb, complete=True)
    res.c("summaries_parsed")
    res.nontrivial = len(atts) >= 2
    if res.nontrivial and case["rs"] % 50 == 0:
        res.sample = {"rules": rules, "summary": text}
    return res.out()
