"""C07 — control output is complete, minimal and honours the user's constraints."""
from __future__ import annotations

import random

from .. import gen, history
from .common import Res, Watch, net_hash, rules_text

LEVEL = "exploration"
RULE = (
    "fresh diagram per query; targets: minimal trap spaces, node spaces, random partial assignments, single states; "
    "both strategies; max_drivers in {None,0,1,2,3}; random forbidden sets; successful_only on/off. "
    "successions_to_target is compared (as a multiset) with all root->outermost-valid-node paths x motif choices of "
    "the reference diagram restricted to the nodes the call expanded (the two unambiguous expansion rules asserted); "
    "every step's override list with all valuations of the inclusion-minimal allowed variable sets within the bound "
    "whose reference LDOI (with accumulated values, A0 = {}) contains the motif; successful flag and successful_only "
    "filtering checked. non-trivial = >= 1 succession with >= 1 step; distinct by rules+query"
)
ASSUMPTIONS = ["reference model vf/ref.py"]
DEADLINE = 300


def cases(tier, seed):
    rng = random.Random(f"C07/{seed}")
    count = 20000 if tier == "quick" else 200000
    cl = [("rand", 4), ("gadget", 4), ("inputs", 3), ("rand-wide", 1), ("dense-neg", 1)]
    nets = gen.corpus() + [gen.draw(rng, cl, 6 if rng.random() < 0.7 else 7) for _ in range(count)]
    out = []
    for n in nets:
        if len(n["names"]) > 7:
            continue
        strat = rng.choice(["internal", "all"]) if len(n["names"]) <= 6 else "internal"
        out.append(
            {
                "net": n,
                "cls": n["cls"],
                "target": history.gen_target(rng, control=True),
                "strategy": strat,
                "max_drivers": rng.choice([None, None, 0, 1, 2, 3]),
                "forbidden": rng.randrange(1 << 16) if rng.random() < 0.35 else None,
                "rs": rng.randrange(1 << 30),
            }
        )
    return out


def gate(agg):
    c = agg["cnt"]
    need = ["queries", "successions_compared", "steps_compared", "multi_step", "with_forbidden", "with_bound", "unsuccessful_interventions", "root_valid", "no_valid_node", "strategy:all", "strategy:internal"]
    return [f"monitor counter {k} is zero" for k in need if c.get(k, 0) == 0]


def run_case(case):
    from .. import bb
    from ..ref import key
    from . import ctl
    from biobalm.control import successions_to_target, succession_control

    net = case["net"]
    res = Res(case)
    ref = bb.ref_of(net)
    rules = rules_text(net)
    W = Watch(res, ref.n)
    sd0 = bb.make_sd(net)
    tgt_named = history.resolve_target(ref, sd0, case["target"])
    tgt = ref.sp(tgt_named)
    res.hash = net_hash(net) + str(sorted(tgt_named.items())) + case["strategy"] + str(case["max_drivers"]) + str(case["forbidden"])
    forb = None
    if case["forbidden"] is not None:
        rr = random.Random(case["forbidden"])
        forb = set(rr.sample(ref.names, rr.randint(0, max(1, ref.n // 2))))
    ctx = {"rules": rules, "target": tgt_named, "strategy": case["strategy"], "max_drivers": case["max_drivers"], "forbidden": sorted(forb) if forb else None}
    rsd = ref.succession_diagram()
    try:
        # ---- successions
        sd = bb.make_sd(net)
        got = W(lambda: successions_to_target(sd, tgt_named))
        expanded = {bb.kspace(ref, sd.node_data(i)["space"]) for i in sd.expanded_ids()}
        present = {bb.kspace(ref, sd.node_data(i)["space"]) for i in sd.node_ids()}
        for kind, d in ctl.expansion_rule_violations(present, expanded, tgt):
            res.v(f"target-expansion:{kind}", f"node {ref.named(d)}", ctx=ctx)
        exp, part_nodes = ctl.expected_successions(ref, rsd, expanded, present, tgt)
        if part_nodes != present:
            res.v("target-expansion:node-set", "nodes present differ from the reference diagram restricted to the expanded nodes", ctx=ctx)
        gotc = sorted(tuple(bb.kspace(ref, m) for m in s) for s in got)
        res.c("queries")
        res.c("successions_compared", len(exp))
        if exp == [()]:
            res.c("root_valid")
        if not exp:
            res.c("no_valid_node")
        if gotc != exp:
            miss = [e for e in exp if e not in gotc]
            extra = [g for g in gotc if g not in exp]
            res.v(
                "successions-differ",
                f"{len(gotc)} successions returned, {len(exp)} expected; missing {miss[:2]} unexpected {extra[:2]}" + (" (duplicates)" if len(set(gotc)) != len(gotc) else ""),
                ctx=ctx,
            )
        # ---- drivers
        sd2 = bb.make_sd(net)
        ivs = W(lambda: succession_control(sd2, tgt_named, strategy=case["strategy"], max_drivers_per_succession_node=case["max_drivers"], forbidden_drivers=forb, successful_only=False))
        sd3 = bb.make_sd(net)
        ivs_ok = W(lambda: succession_control(sd3, tgt_named, strategy=case["strategy"], max_drivers_per_succession_node=case["max_drivers"], forbidden_drivers=forb, successful_only=True))
    except bb.Aborted as e:
        res.inconclusive = f"aborted: {e}"
        return res.out()
    res.c(f"strategy:{case['strategy']}")
    if forb:
        res.c("with_forbidden")
    if case["max_drivers"] is not None:
        res.c("with_bound")
    if sorted(tuple(bb.kspace(ref, m) for m in iv.succession) for iv in ivs) != exp:
        res.v("interventions-successions-differ", "successions of the interventions (successful_only=False) differ from the expected successions", ctx=ctx)
    forb_idx = {ref.idx[f] for f in (forb or set())}
    nt = False
    for iv in ivs:
        A = {}
        if len(iv.succession) != len(iv.control):
            res.v("control-length", "len(control) != len(succession)", ctx=ctx)
            continue
        if len(iv.succession) >= 1:
            nt = True
        if len(iv.succession) >= 2:
            res.c("multi_step")
        every = True
        for motif, ctrl in zip(iv.succession, iv.control):
            m = ref.sp(motif)
            exp_d = ctl.expected_drivers(ref, m, A, case["strategy"], case["max_drivers"], forb_idx)
            got_d = sorted(bb.kspace(ref, d) for d in ctrl)
            res.c("steps_compared")
            bound = len({k: v for k, v in m.items() if k not in A}) if case["max_drivers"] is None else case["max_drivers"]
            for d in ctrl:
                if forb and set(d) & forb:
                    res.v("forbidden-driver-reported", f"override {d} uses a forbidden variable", ctx=ctx)
                if len(d) > bound:
                    res.v("oversized-driver-set", f"override {d} larger than the bound {bound}", ctx=ctx)
            if got_d != exp_d:
                miss = [dict(x) for x in exp_d if x not in got_d]
                extra = [dict(x) for x in got_d if x not in exp_d]
                kind = "missing" if miss and not extra else "non-minimal-or-wrong" if extra and not miss else "differ"
                res.v(f"drivers-{kind}:{case['strategy']}", f"step {motif}: overrides {ctrl}; missing {[ref.named(x) for x in miss][:3]} unexpected {[ref.named(x) for x in extra][:3]}", ctx=ctx)
            if not ctrl:
                every = False
            nA = dict(m)
            nA.update(A)
            A = ref.percolate(nA)
        if iv.successful != every:
            res.v("successful-flag", f"successful={iv.successful} but 'every step has an override' is {every}", ctx=ctx)
        if not iv.successful:
            res.c("unsuccessful_interventions")
    want = sorted(repr(i) for i in ivs if i.successful)
    have = sorted(repr(i) for i in ivs_ok)
    if want != have:
        res.v("successful_only-filter", f"successful_only=True returned {len(have)} interventions, the successful subset has {len(want)}", ctx=ctx)
    res.nontrivial = nt
    if nt and case["rs"] % 60 == 0:
        res.sample = dict(ctx, interventions=len(ivs))
    return res.out()
