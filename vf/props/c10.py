"""C10 — Petri-net encoding and network reduction preserve the asynchronous dynamics."""
from __future__ import annotations

import random

from .. import gen, history
from .. import expr as X
from .common import Res, Watch, net_hash, rules_text

LEVEL = "exploration"
RULE = (
    "small networks (explicit state space): network_to_petrinet, restrict_petrinet_to_subspace (random subspaces, trap "
    "spaces, chained restrictions), percolate_network (remove_constants on/off; trap and non-trap spaces) and "
    "node_percolated_network / node_percolated_petri_net (global-net path and cached-parent path) are compared with "
    "the truth tables over the WHOLE state space through the reference Petri-net decoder. Repository models (5-321 "
    "variables): every update function is compared with the transitions of its variable over all assignments of its "
    "support (bitset truth tables, exhaustive up to 20 support variables, 20000 samples above), for the full net and "
    "for nets restricted to random subspaces. ambient: the same oracle as contracts on the three functions during "
    "random histories. non-trivial = network with a non-monotonic or >= 3-input function, or a model; distinct by "
    "rules / model name + seed"
)
ASSUMPTIONS = ["own parser/evaluator of update-function text (vf/expr.py), self-checked against AEON's BDD evaluation in C17", "reference Petri-net decoder in vf/ref.py"]
DEADLINE = 600


def cases(tier, seed):
    rng = random.Random(f"C10/{seed}")
    nmax, count, amb, msize = (7, 7000, 1500, 80) if tier == "quick" else (9, 100000, 16000, 400)
    cl = [("rand", 4), ("rand-wide", 3), ("gadget", 3), ("inputs", 3), ("dense-neg", 2)]
    nets = gen.corpus() + [gen.exh2(i) for i in range(256)] + [gen.draw(rng, cl, nmax) for _ in range(count)]
    out = [{"net": n, "cls": n["cls"], "mode": "small", "rs": rng.randrange(1 << 30)} for n in nets]
    for f in gen.models_up_to(msize):
        out.append({"model": f, "cls": "model", "mode": "model", "rs": rng.randrange(1 << 30), "deadline": 600})
    kinds = ["bfs", "dfs", "min", "min_skip", "attr", "block", "scc", "skip", "skiprem", "cand", "seeds", "xseeds"]
    for _ in range(amb):
        n = gen.draw(rng, cl, 7)
        out.append({"net": n, "cls": n["cls"], "mode": "ambient", "history": history.gen_history(rng, kinds, rng.randint(3, 7)), "rs": rng.randrange(1 << 30)})
    return out


def gate(agg):
    c = agg["cnt"]
    need = ["nets_encoded", "restrictions", "chained_restrictions", "percolate_network_calls", "node_nets_global_path", "node_nets_parent_path", "model_functions_exhaustive", "model_restricted_functions", "ambient_restrict_calls", "ambient_encode_calls", "ambient_percolate_calls"]
    return [f"monitor counter {k} is zero" for k in need if c.get(k, 0) == 0]


def run_case(case):
    from .. import bb

    res = Res(case)
    if case["mode"] == "model":
        return _model(case, res, bb)
    net = case["net"]
    res.hash = net_hash(net) + case["mode"] + (str(case["rs"]) if case["mode"] == "ambient" else "")
    ref = bb.ref_of(net)
    if case["mode"] == "ambient":
        return _ambient(case, res, ref, bb)
    return _small(case, res, ref, bb)


def _small(case, res, ref, bb):
    from .. import oracles
    from biodivine_aeon import AsynchronousGraph
    from biobalm.petri_net_translation import network_to_petrinet, restrict_petrinet_to_subspace
    from biobalm.space_utils import percolate_network

    net = case["net"]
    rules = rules_text(net)
    rng = random.Random(case["rs"])
    n = ref.n
    bn = bb.make_bn(net)
    pn = network_to_petrinet(bn)
    rep = lambda tag: (lambda k, m: res.v(f"{tag}-{k}", m, rules=rules))  # noqa: E731
    oracles.judge_petri_net(pn, ref, rep("encode"), "network_to_petrinet")
    res.c("nets_encoded")
    traps = ref.all_traps()
    for t in range(5):
        if t % 2 == 0:
            sp = {v: rng.randint(0, 1) for v in range(n) if rng.random() < 0.4}
        else:
            sp = dict(rng.choice(traps))
        spn = ref.named(sp)
        r1 = restrict_petrinet_to_subspace(pn, spn)
        sub = oracles.restrict_ref(ref, sp)
        oracles.judge_petri_net(r1, sub, rep("restrict"), f"restrict_petrinet_to_subspace({spn})")
        res.c("restrictions")
        # chained restriction (the cached-parent path restricts an already restricted net)
        free = [i for i in range(n) if i not in sp]
        if free:
            sp2 = {v: rng.randint(0, 1) for v in free if rng.random() < 0.5}
            both = dict(sp)
            both.update(sp2)
            r2 = restrict_petrinet_to_subspace(r1, ref.named(both))
            oracles.judge_petri_net(r2, oracles.restrict_ref(ref, both), rep("restrict-chained"), f"restrict(restrict(pn,{spn}),{ref.named(both)})")
            res.c("chained_restrictions")
        # must not modify its argument
    oracles.judge_petri_net(pn, ref, rep("restrict-mutates-input"), "net after restrictions")
    bn = bn.infer_valid_graph()  # what SuccessionDiagram does before it percolates
    ag = AsynchronousGraph(bn)
    for t in range(4):
        # the statement is about trap spaces: take trap spaces (and un-percolated stable motifs)
        sp = dict(rng.choice(traps))
        if t % 2 == 0 and sp:
            # drop what percolation would re-derive, if the rest is still a trap space
            for v in list(sp):
                q = {k: w for k, w in sp.items() if k != v}
                if ref.is_trap(q) and ref.percolate(q) == ref.percolate(sp):
                    sp = q
        for rc in (True, False):
            spn = ref.named(sp)
            try:
                nb = percolate_network(bn, spn, ag if rng.random() < 0.5 else None, remove_constants=rc)
            except Exception as e:
                res.v(f"percolate_network-raised:{type(e).__name__}", f"percolate_network({spn}, remove_constants={rc}): {e}", rules=rules)
                continue
            oracles.judge_percolated_network(nb, ref, spn, rc, rep(f"percolate_network:{'rc' if rc else 'keep'}"), f"percolate_network({spn}, remove_constants={rc})")
            res.c("percolate_network_calls")
    # node-level accessors on a real diagram
    W = Watch(res, n)
    try:
        sd = bb.make_sd(net)
        W(lambda: sd.expand_bfs(size_limit=40))
        order = list(sd.node_ids())
        for i in order:
            d = sd.node_data(i)
            spi = ref.sp(d["space"])
            sub = oracles.restrict_ref(ref, spi)
            use_parent = rng.random() < 0.5
            if use_parent and d["parent_node"] is not None:
                sd.node_percolated_petri_net(d["parent_node"], compute=True)  # make sure the parent's net is cached
                res.c("node_nets_parent_path")
            else:
                # drop cached parent nets so that the global path is taken
                if d["parent_node"] is not None:
                    sd.node_data(d["parent_node"])["percolated_petri_net"] = None
                res.c("node_nets_global_path")
            sd.node_data(i)["percolated_petri_net"] = None
            npn = sd.node_percolated_petri_net(i, compute=True)
            if len(d["space"]) == n:
                if npn.number_of_nodes() != 0:
                    res.v("node-net-fixed-point-not-empty", f"node {i}", rules=rules)
            else:
                oracles.judge_petri_net(npn, sub, rep("node-petri-net:" + ("parent" if use_parent else "global")), f"node_percolated_petri_net({i}) space {d['space']}")
            nbn = sd.node_percolated_network(i, compute=True)
            if len(d["space"]) < n:
                oracles.judge_percolated_network(nbn, ref, d["space"], True, rep("node-network"), f"node_percolated_network({i})")
    except bb.Aborted as e:
        res.inconclusive = f"aborted: {e}"
    res.nontrivial = any(len(X.support(net["exprs"][x])) >= 3 for x in net["names"]) or any(not _monotone(ref, i) for i in range(n))
    if res.nontrivial and case["rs"] % 60 == 0:
        res.sample = {"rules": rules}
    return res.out()


def _monotone(ref, i):
    # f_i is monotone in every variable (purely syntactic-free test on the bitset)
    F = ref.F1[i]
    for j in range(ref.n):
        sh = 1 << j
        lo = F & ref.V0[j]
        hi = (F & ref.V1[j]) >> sh
        if (lo & ~hi) and (hi & ~lo):
            return False
    return True


# ------------------------------------------------------------------------------- large models
def _contexts(pn, place_to_variable):
    trans = {}
    for node, data in pn.nodes(data=True):
        if data.get("kind") != "transition":
            continue
        x = data["change"]
        ctx = []
        bad = False
        for p in pn.predecessors(node):
            v, pos = place_to_variable(str(p))
            if v == x:
                if pos != (data["direction"] == "down"):
                    bad = True
                continue
            ctx.append((v, pos))
        trans.setdefault((x, data["direction"]), []).append((ctx, bad))
    return trans


def _judge_function(x, e, trans, fixed, res, what, rng, tagp):
    """Transitions of x (contexts) vs update expression e under the fixed values."""
    sup = sorted((X.support(e) | {x}) - set(fixed))
    if x in fixed:
        return
    k = len(sup)
    if k <= 20:
        ALL = (1 << (1 << k)) - 1
        masks = X.var_masks(k)
        env = dict(zip(sup, masks))
        for v, b in fixed.items():
            env[v] = ALL if b else 0
        for v in X.support(e):
            if v not in env:
                env[v] = 0
        F = X.ev_bits(e, env, ALL)
        Xm = env[x]
        for direction, exp in (("up", F & ~Xm & ALL), ("down", (ALL ^ F) & Xm)):
            got = 0
            for ctx, bad in trans.get((x, direction), []):
                if bad:
                    res.v(f"{tagp}-structure", f"{what}: a {direction}-transition of {x} does not take the token from the right place")
                b = (ALL ^ Xm) if direction == "up" else Xm
                for v, pos in ctx:
                    if v not in env:
                        res.v(f"{tagp}-context-outside-support", f"{what}: transition of {x} reads {v}, which the function does not depend on (or which is fixed)")
                        b = 0
                        break
                    b &= env[v] if pos else (ALL ^ env[v])
                got |= b
            if got != exp:
                res.v(f"{tagp}-{direction}-transitions", f"{what}: {direction}-transitions of {x} differ from its update function on {bin(got ^ exp).count('1')} of {1 << k} support assignments")
        res.c("model_functions_exhaustive" if tagp == "model-encode" else "model_restricted_functions")
    else:
        for _ in range(20000):
            st = {v: rng.randint(0, 1) for v in sup}
            st.update(fixed)
            for v in X.support(e):
                st.setdefault(v, 0)
            f = X.ev_state(e, st)
            for direction, want in (("up", f == 1 and st[x] == 0), ("down", f == 0 and st[x] == 1)):
                en = False
                if (direction == "up") == (st[x] == 0):
                    for ctx, bad in trans.get((x, direction), []):
                        if all(st.get(v) == (1 if pos else 0) for v, pos in ctx):
                            en = True
                            break
                if en != want:
                    res.v(f"{tagp}-{direction}-transitions", f"{what}: {direction}-transition of {x} enabled={en} expected={want} in a sampled state")
                    return
        res.c("model_functions_sampled")


def _model(case, res, bb):
    from biodivine_aeon import BooleanNetwork
    from biobalm.petri_net_translation import network_to_petrinet, restrict_petrinet_to_subspace, place_to_variable, extract_variable_names
    import os

    fname = case["model"]
    net = gen.model_net(fname)
    res.hash = fname
    rng = random.Random(case["rs"])
    bn = BooleanNetwork.from_file(os.path.join(gen.MODELS_DIR, fname))
    pn = network_to_petrinet(bn)
    trans = _contexts(pn, place_to_variable)
    if sorted(extract_variable_names(pn)) != sorted(net["names"]):
        res.v("model-encode-variables", f"{fname}: net variables differ from the model's")
    for x in net["names"]:
        _judge_function(x, net["exprs"][x], trans, {}, res, f"{fname} network_to_petrinet", rng, "model-encode")
    for _ in range(3):
        k = rng.randint(1, max(1, len(net["names"]) // 4))
        fixed = {v: rng.randint(0, 1) for v in rng.sample(net["names"], k)}
        r = restrict_petrinet_to_subspace(pn, fixed)
        exp_vars = sorted(set(net["names"]) - set(fixed))
        if sorted(extract_variable_names(r)) != exp_vars:
            res.v("model-restrict-variables", f"{fname}: restricted net variables are not exactly the free ones")
            continue
        rt = _contexts(r, place_to_variable)
        for x in exp_vars:
            _judge_function(x, net["exprs"][x], rt, fixed, res, f"{fname} restricted to {len(fixed)} fixed variables", rng, "model-restrict")
    res.nontrivial = True
    res.m("model_variables", len(net["names"]))
    res.sample = {"model": fname, "variables": len(net["names"])} if case["rs"] % 10 == 0 else None
    return res.out()


# ------------------------------------------------------------------------------- ambient
def install_contracts(res, max_vars=9):
    from .. import oracles
    from ..instrument import contract
    from ..ref import Ref
    import biobalm.petri_net_translation as PT
    import biobalm.space_utils as SU

    def post_encode(result, network, symbolic_context):
        if network.variable_count() > max_vars:
            return True
        dyn = oracles.ref_of_bn(network)
        oracles.judge_petri_net(result, dyn, lambda k, m: res.v(f"encode-{k}:ambient", m), "network_to_petrinet")
        res.c("ambient_encode_calls")
        return True

    def post_restrict(result, petri_net, sub_space):
        names = sorted(str(p)[3:] for p in petri_net.nodes if str(p).startswith("b0_"))
        if len(names) > max_vars:
            return True
        dyn = Ref.from_petri_net(petri_net, names)[0]
        sp = {dyn.idx[k]: v for k, v in sub_space.items() if k in dyn.idx}
        oracles.judge_petri_net(result, oracles.restrict_ref(dyn, sp), lambda k, m: res.v(f"restrict-{k}:ambient", m), f"restrict_petrinet_to_subspace({sub_space})")
        res.c("ambient_restrict_calls")
        return True

    def post_percolate(result, bn, space, symbolic_network, remove_constants):
        if bn.variable_count() > max_vars:
            return True
        dyn = oracles.ref_of_bn(bn)
        oracles.judge_percolated_network(result, dyn, space, remove_constants, lambda k, m: res.v(f"percolate_network-{k}:ambient", m), f"percolate_network({space}, {remove_constants})")
        res.c("ambient_percolate_calls")
        return True

    contract(PT, "network_to_petrinet", post_encode)
    contract(PT, "restrict_petrinet_to_subspace", post_restrict)
    contract(SU, "percolate_network", post_percolate)


def _ambient(case, res, ref, bb):
    from ..instrument import remove_contracts, CONTRACTS
    import biobalm.succession_diagram  # noqa: F401
    import biobalm.control  # noqa: F401

    W = Watch(res, ref.n)
    CONTRACTS.reset()
    install_contracts(res)
    try:
        sd = bb.make_sd(case["net"])
        for op in case["history"]:
            holder = {}

            def f(op=op):
                holder["sd"], holder["r"] = history.apply_op(sd, op, ref)

            W(f, nodes=len(sd))
            sd = holder["sd"]
    except bb.Aborted as e:
        res.inconclusive = f"aborted: {e}"
    finally:
        remove_contracts()
    for w in CONTRACTS.witnesses:
        res.v("oracle-error", str(w))
    res.nontrivial = sum(CONTRACTS.evals.values()) >= 3
    for v in res.viol:
        v["detail"]["rules"] = rules_text(case["net"])
        v["detail"]["history"] = case["history"]
    return res.out()
