"""C08 — attractor candidates cover every attractor under every option and limit setting."""
from __future__ import annotations

import itertools
import random

from .. import gen
from .common import Res, Watch, net_hash, rules_text

LEVEL = "exploration"
RULE = (
    "per network and diagram mode (unexpanded root / fully expanded / partially expanded with stubs / completed with "
    "skip nodes), node_attractor_candidates(id, compute=True, greedy, simulation) is called on every node under a "
    "configuration drawn from thresholds {0,1,2,3,1000} x candidate limits {0,1,2,3,5,100000} x simulation budgets "
    "{0,1,1000} x NFVS thresholds {0,1,2000} (latin sample in quick, full product on the corpus in thorough); skip "
    "nodes are queried on a private copy so that the documented pruning is inactive. A wrapper on "
    "compute_fixed_point_reduced_STG labels the branch taken (no-call / plain / small / regen / limit-error). "
    "Candidates judged against the explicit attractors. non-trivial = node with >= 2 attractors outside its "
    "successors, or a complex one; distinct by rules+config+mode"
)
ASSUMPTIONS = ["reference model vf/ref.py"]
DEADLINE = 300

THR = [0, 1, 2, 3, 1000]
LIM = [0, 1, 2, 3, 5, 100000]
SIM = [0, 1, 1000]
NFVS = [0, 1, 2000]
MODES = ["stub-root", "full", "partial", "skipped"]


def cases(tier, seed):
    rng = random.Random(f"C08/{seed}")
    nmax, count = (7, 4000) if tier == "quick" else (8, 20000)
    cl = [("dense-neg", 4), ("gadget", 4), ("rand", 2), ("rand-wide", 2), ("inputs", 1), ("overlap-maa", 0.3), ("rings", 2)]
    corpus = gen.corpus()
    out = []

    def add(n, cfg, opts, mode):
        out.append({"net": n, "cls": n["cls"], "config": cfg, "opts": opts, "mode": mode, "rs": rng.randrange(1 << 30)})

    for n in corpus:
        if tier == "quick":
            for thr, lim in itertools.product(THR, LIM):
                add(n, {"retained_set_optimization_threshold": thr, "attractor_candidates_limit": lim, "minimum_simulation_budget": rng.choice(SIM), "nfvs_size_threshold": rng.choice(NFVS)}, [rng.random() < 0.5, rng.random() < 0.5], rng.choice(MODES))
        else:
            for thr, lim, sim, nf in itertools.product(THR, LIM, SIM, NFVS):
                for g, s in itertools.product([True, False], repeat=2):
                    add(n, {"retained_set_optimization_threshold": thr, "attractor_candidates_limit": lim, "minimum_simulation_budget": sim, "nfvs_size_threshold": nf}, [g, s], rng.choice(MODES))
    nets = [gen.draw(rng, cl, nmax) for _ in range(count)] + [gen.model_net(f) for f in gen.models_up_to(9)]
    for n in nets:
        # latin-square style: cycle the values with random offsets
        k = rng.randrange(1000)
        for rep in range(4):
            cfg = {
                "retained_set_optimization_threshold": THR[(k + rep) % len(THR)],
                "attractor_candidates_limit": LIM[(k // 5 + rep * 5) % len(LIM)] if rng.random() < 0.6 else 100000,
                "minimum_simulation_budget": SIM[(k + rep) % 3],
                "nfvs_size_threshold": NFVS[(k // 3 + rep) % 3],
            }
            add(n, cfg, [[True, True], [False, True], [True, False], [False, False]][(k + rep) % 4], MODES[(k // 7 + rep) % 4])
    return out


def gate(agg):
    c = agg["cnt"]
    need = ["queries", "branch:plain", "branch:small", "branch:regen", "branch:no-call", "limit_errors", "nodes:stub", "nodes:expanded", "nodes:skipped", "attractors_covered"]
    return [f"monitor counter {k} is zero" for k in need if c.get(k, 0) == 0]


def run_case(case):
    import pickle

    from .. import bb
    from .attrs import judge_candidates, node_expected
    import biobalm._sd_attractors.attractor_candidates as AC

    net = case["net"]
    res = Res(case)
    cfg = case["config"]
    res.hash = net_hash(net) + str(sorted(cfg.items())) + str(case["opts"]) + case["mode"]
    ref = bb.ref_of(net)
    W = Watch(res, ref.n)
    rules = rules_text(net)
    greedy, sim = case["opts"]
    rr = random.Random(case["rs"])

    calls = []
    orig_fp = AC.compute_fixed_point_reduced_STG

    def fp(pn, retained_set={}, ensure_subspace={}, avoid_subspaces=[], solution_limit=None):
        r = orig_fp(pn, retained_set, ensure_subspace=ensure_subspace, avoid_subspaces=avoid_subspaces, solution_limit=solution_limit)
        calls.append((solution_limit, len(r), len(retained_set)))
        return r

    AC.compute_fixed_point_reduced_STG = fp
    try:
        try:
            sd = bb.make_sd(net, cfg)
            mode = case["mode"]
            if mode == "full":
                W(lambda: sd.expand_bfs())
            elif mode == "partial":
                W(lambda: sd.expand_bfs(size_limit=rr.randint(1, 5)))
            elif mode == "skipped":
                W(lambda: sd.expand_dfs(size_limit=rr.randint(1, 4)))
                for i in list(sd.stub_ids()):
                    if rr.random() < 0.4:
                        W(lambda i=i: sd.skip_to_minimal(i))
                W(lambda: sd.skip_remaining())
        except bb.Aborted as e:
            res.inconclusive = f"aborted: {e}"
            return res.out()
        except RuntimeError:
            res.inconclusive = "limit-error-during-expansion"
            return res.out()
        blob = pickle.dumps(sd)
        nt = False
        for i in list(sd.node_ids()):
            d = sd.node_data(i)
            kind = "skipped" if d["skipped"] else ("expanded" if d["expanded"] else "stub")
            target = pickle.loads(blob) if kind == "skipped" else sd
            del calls[:]
            ctx = {"rules": rules, "config": cfg, "greedy": greedy, "simulation": sim, "mode": case["mode"], "rs": case["rs"], "node": i}
            try:
                c = W(lambda: target.node_attractor_candidates(i, compute=True, greedy_asp_minification=greedy, simulation_minification=sim), nodes=len(sd))
            except RuntimeError as e:
                res.c("limit_errors")
                res.c("queries")
                if "xceeded" not in str(e):
                    res.v(f"unexpected-runtime-error:{kind}", f"node {i}: {e}", ctx=ctx)
                continue
            except AssertionError as e:
                res.v(f"assertion:{kind}", f"node {i}: AssertionError {e}", ctx=ctx)
                continue
            except bb.Aborted as e:
                res.inconclusive = f"aborted: {e}"
                continue
            if not calls:
                branch = "no-call"
            elif not greedy:
                branch = "plain"
            else:
                thr = cfg.get("retained_set_optimization_threshold", 1000)
                branch = "small" if calls[0][1] < thr else "regen"
            res.c("queries")
            res.c(f"branch:{branch}")
            res.c(f"nodes:{kind}")
            nexp = judge_candidates(ref, target, i, c, res, f"{branch}:{kind}", bb, ctx=ctx)
            res.c("attractors_covered", nexp)
            exp = node_expected(ref, target, i, bb)
            if len(exp) >= 2 or any(a.bit_count() > 1 for a in exp):
                nt = True
            if len(c) == 0 and nexp == 0:
                res.c("empty_lists_confirmed")
        res.nontrivial = nt
    finally:
        AC.compute_fixed_point_reduced_STG = orig_fp
    if res.nontrivial and case["rs"] % 50 == 0:
        res.sample = {"rules": rules, "config": cfg, "opts": case["opts"], "mode": case["mode"]}
    return res.out()
