"""C11 — percolation computes exactly the logical domain of influence."""
from __future__ import annotations

import random

from .. import gen, history
from .. import expr as X
from .common import Res, Watch, net_hash, rules_text

LEVEL = "exploration"
RULE = (
    "small networks: percolate_space / percolate_space_strict / percolation_conflicts / find_single_node_LDOIs / "
    "find_single_drivers compared with the reference least fixed point of value propagation (bitset truth tables over "
    "the whole state space) on the empty space, trap spaces, non-trap spaces, spaces conflicting with the dynamics, "
    "constants fixed to the wrong value and full states; all 256 two-variable networks x all 9 subspaces exhaustively. "
    "Repository models: support-local re-evaluation of every update function under the percolated space (a variable is "
    "fixed iff its function is constant on the space, given values kept). ambient: contract on every percolate_space "
    "call of random expansion/control histories. non-trivial = space whose percolation derives >= 1 new variable or "
    "has a conflict; distinct by rules+seed"
)
ASSUMPTIONS = ["reference model vf/ref.py; own expression evaluator for the models"]
DEADLINE = 600
EXHAUSTIVE = False


def cases(tier, seed):
    rng = random.Random(f"C11/{seed}")
    nmax, count, amb, msize = (7, 12000, 1500, 100) if tier == "quick" else (10, 120000, 16000, 400)
    cl = [("rand", 4), ("rand-wide", 2), ("gadget", 3), ("inputs", 3), ("dense-neg", 1)]
    nets = gen.corpus() + [gen.draw(rng, cl, nmax) for _ in range(count)]
    out = [{"net": gen.exh2(i), "cls": "exh2", "mode": "exh", "rs": i} for i in range(256)]
    out += [{"net": n, "cls": n["cls"], "mode": "small", "rs": rng.randrange(1 << 30)} for n in nets]
    for f in gen.models_up_to(msize):
        out.append({"model": f, "cls": "model", "mode": "model", "rs": rng.randrange(1 << 30), "deadline": 600})
    kinds = ["bfs", "dfs", "min", "attr", "block", "scc", "skip", "skiprem", "control", "control", "target"]
    for _ in range(amb):
        n = gen.draw(rng, cl, 7)
        out.append({"net": n, "cls": n["cls"], "mode": "ambient", "history": history.gen_history(rng, kinds, rng.randint(2, 6)), "rs": rng.randrange(1 << 30)})
    return out


def gate(agg):
    c = agg["cnt"]
    need = ["percolate_calls", "strict_calls", "conflict_calls", "ldoi_tables", "single_driver_queries", "single_driver_queries_with_table", "spaces:trap", "spaces:nontrap", "spaces:conflicting", "spaces:state", "exh2_space_checks", "model_spaces", "ambient_percolate_calls"]
    return [f"monitor counter {k} is zero" for k in need if c.get(k, 0) == 0]


def run_case(case):
    from .. import bb

    res = Res(case)
    if case["mode"] == "model":
        return _model(case, res, bb)
    net = case["net"]
    res.hash = net_hash(net) + case["mode"] + (str(case["rs"]) if case["mode"] == "ambient" else "")
    ref = bb.ref_of(net)
    if case["mode"] == "ambient":
        return _ambient(case, res, ref, bb)
    return _small(case, res, ref, bb)


def _spaces(ref, rng, exhaustive):
    n = ref.n
    if exhaustive:
        return [("enum", sp) for sp in ref.all_spaces()]
    out = [("empty", {})]
    traps = ref.all_traps()
    for _ in range(3):
        out.append(("trap", dict(rng.choice(traps))))
    for _ in range(4):
        out.append(("rand", {v: rng.randint(0, 1) for v in range(n) if rng.random() < 0.4}))
    # conflicting with the dynamics: fix a variable against what the rest forces
    for _ in range(3):
        base = {v: rng.randint(0, 1) for v in range(n) if rng.random() < 0.4}
        p = ref.percolate(base)
        derived = [v for v in p if v not in base]
        if derived:
            v = rng.choice(derived)
            base[v] = 1 - p[v]
            out.append(("conflict", base))
    # constants fixed to the wrong value
    for i in range(n):
        if ref.F1[i] in (0, ref.ALL):
            out.append(("conflict", {i: 0 if ref.F1[i] else 1}))
            break
    out.append(("state", ref.sp(ref.state_named(rng.randrange(ref.N)))))
    return out


def _small(case, res, ref, bb):
    from .. import oracles
    from biodivine_aeon import AsynchronousGraph
    from biobalm.space_utils import percolate_space, percolate_space_strict, percolation_conflicts
    from biobalm.drivers import find_single_node_LDOIs, find_single_drivers

    net = case["net"]
    rules = rules_text(net)
    rng = random.Random(case["rs"])
    bn = bb.make_bn(net).infer_valid_graph()
    ag = AsynchronousGraph(bn)
    nt = False
    for kind, sp in _spaces(ref, rng, case["mode"] == "exh"):
        spn = ref.named(sp)
        rep = lambda tag: (lambda k, m: res.v(f"{tag}-{k}", m, rules=rules, space=spn))  # noqa: E731
        got = percolate_space(ag, spn)
        oracles.judge_percolate(got, ref, spn, rep("percolate"), "percolate_space")
        res.c("percolate_calls")
        if case["mode"] == "exh":
            res.c("exh2_space_checks")
        P = ref.percolate(sp)
        if len(P) > len(sp):
            nt = True
        is_trap = ref.is_trap(sp)
        res.c("spaces:" + ("state" if kind == "state" else "trap" if is_trap else "nontrap"))
        # idempotent
        again = percolate_space(ag, got)
        if again != got:
            res.v("percolate-not-idempotent", f"percolate_space(percolate_space({spn})) = {again} != {got}", rules=rules)
        if is_trap:
            g = ref.sp(got)
            if not ref.is_trap(g) or not all(g.get(i) == v for i, v in sp.items()):
                res.v("percolate-trap-not-trap", f"percolation of trap space {spn} is {got}: not a trap space inside it", rules=rules)
        # strict variant
        gs = percolate_space_strict(ag, spn)
        oracles.judge_percolate(gs, ref, spn, rep("strict"), "percolate_space_strict", strict=True)
        res.c("strict_calls")
        # conflicts (non-strict): given variables whose function is constant with the opposite value on the percolated space
        exp_conf = set()
        S = ref.sub(P)
        for i, v in P.items():
            c = ref.const_on(i, S)
            if c is not None and c != v:
                exp_conf.add(ref.names[i])
        got_conf = percolation_conflicts(ag, spn, strict_percolation=False)
        if got_conf != exp_conf:
            res.v("conflicts-nonstrict", f"percolation_conflicts({spn}, strict=False) = {sorted(got_conf)} expected {sorted(exp_conf)}", rules=rules)
        if exp_conf:
            res.c("spaces:conflicting")
            nt = True
        sc = percolation_conflicts(ag, spn, strict_percolation=True)
        if not sc <= got_conf:
            res.v("conflicts-strict-not-subset", f"strict conflicts {sorted(sc)} not a subset of non-strict {sorted(got_conf)}", rules=rules)
        res.c("conflict_calls")
    # single-node LDOIs and single drivers
    ld = find_single_node_LDOIs(ag if rng.random() < 0.5 else bn)
    res.c("ldoi_tables")
    exp_keys = set()
    for i in range(ref.n):
        if ref.F1[i] in (0, ref.ALL):
            continue
        for b in (0, 1):
            exp_keys.add((ref.names[i], b))
            e = ref.named(ref.percolate_strict({i: b}))
            g = ld.get((ref.names[i], b))
            if g is None:
                res.v("ldoi-missing", f"find_single_node_LDOIs lacks {(ref.names[i], b)}", rules=rules)
            elif dict(g) != e:
                res.v("ldoi-differs", f"LDOI of {ref.names[i]}={b} is {g}, expected {e}", rules=rules)
    if set(ld.keys()) != exp_keys:
        res.v("ldoi-keys", f"LDOI table keys {sorted(set(ld.keys()) ^ exp_keys)} unexpected/missing (constant variables must be skipped)", rules=rules)
    for _ in range(4):
        k = rng.randint(1, min(3, ref.n))
        tgt = {v: rng.randint(0, 1) for v in rng.sample(range(ref.n), k)}
        if rng.random() < 0.5 and exp_keys:
            # a target that certainly has a driver
            nm, b = rng.choice(sorted(exp_keys))
            l = ref.percolate_strict({ref.idx[nm]: b})
            tgt = dict(list(l.items())[: rng.randint(1, max(1, len(l)))]) if l else {ref.idx[nm]: b}
        tn = ref.named(tgt)
        got = find_single_drivers(tn, ag)
        # the same query with a caller-supplied LDOI table: same answer, table left untouched
        import copy as _copy

        snap = _copy.deepcopy(ld)
        got_tab = find_single_drivers(tn, ag, LDOIs=ld)
        res.c("single_driver_queries_with_table")
        if got_tab != got:
            res.v("single-drivers-table-vs-fresh", f"find_single_drivers({tn}) with a supplied LDOI table = {sorted(got_tab)}, without = {sorted(got)}", rules=rules)
        if ld != snap:
            bad = [k for k in snap if ld.get(k) != snap[k]]
            res.v("ldoi-table-modified-by-query", f"find_single_drivers modified the caller's LDOI table at {bad[:3]}", rules=rules)
            ld = snap
        exp = set()
        for nm, b in exp_keys:
            l = ref.named(ref.percolate_strict({ref.idx[nm]: b}))
            l[nm] = b if nm not in l else l[nm]
            items = set(ref.named(ref.percolate_strict({ref.idx[nm]: b})).items()) | {(nm, b)}
            if set(tn.items()) <= items:
                exp.add((nm, b))
        res.c("single_driver_queries")
        if got != exp:
            res.v("single-drivers", f"find_single_drivers({tn}) = {sorted(got)} expected {sorted(exp)}", rules=rules)
    res.nontrivial = nt
    if nt and case["rs"] % 60 == 0:
        res.sample = {"rules": rules}
    return res.out()


def _model(case, res, bb):
    """Large models: the result of percolate_space must be a fixed point of 'a variable is
    fixed iff given or its function is constant on the space', and the least one: checked by
    replaying the propagation with the harness' own evaluator (support-local)."""
    import os
    from biodivine_aeon import AsynchronousGraph, BooleanNetwork
    from biobalm.space_utils import percolate_space

    fname = case["model"]
    net = gen.model_net(fname)
    res.hash = fname
    rng = random.Random(case["rs"])
    bn = BooleanNetwork.from_file(os.path.join(gen.MODELS_DIR, fname)).infer_valid_graph()
    ag = AsynchronousGraph(bn)
    names = net["names"]
    sup = {x: sorted(X.support(net["exprs"][x])) for x in names}

    def const_under(x, space):
        """value of f_x if constant on `space`, else None (exhaustive over free support <= 16, else sampled)."""
        e = net["exprs"][x]
        free = [v for v in sup[x] if v not in space]
        k = len(free)
        if k <= 16:
            ALL = (1 << (1 << k)) - 1
            env = dict(zip(free, X.var_masks(k)))
            for v in sup[x]:
                if v in space:
                    env[v] = ALL if space[v] else 0
            F = X.ev_bits(e, env, ALL)
            return 1 if F == ALL else 0 if F == 0 else None
        seen = set()
        for _ in range(4000):
            st = {v: rng.randint(0, 1) for v in free}
            st.update({v: space[v] for v in sup[x] if v in space})
            seen.add(X.ev_state(e, st))
            if len(seen) == 2:
                return None
        return "unknown"

    for t in range(12):
        k = rng.choice([0, 1, 1, 2, 3, 5])
        given = {v: rng.randint(0, 1) for v in rng.sample(names, min(k, len(names)))}
        got = percolate_space(ag, given)
        res.c("model_spaces")
        res.c("percolate_calls")
        for v, b in given.items():
            if got.get(v) != b:
                res.v("model-given-value-changed", f"{fname}: given {v}={b} became {got.get(v)}")
        # least fixed point replay
        R = dict(given)
        changed = True
        unknown = False
        while changed:
            changed = False
            for x in names:
                if x in R:
                    continue
                c = const_under(x, R)
                if c == "unknown":
                    unknown = True
                    continue
                if c is not None:
                    R[x] = c
                    changed = True
        if unknown:
            res.c("model_spaces_sampled_only")
            # soundness only: everything the library fixed beyond `given` must be constant under its own result
            continue
        if got != R:
            miss = {k_: v for k_, v in R.items() if got.get(k_) != v}
            extra = {k_: v for k_, v in got.items() if R.get(k_) != v}
            res.v("model-percolate-differs", f"{fname}: given {given}: missing {dict(list(miss.items())[:4])} unexpected {dict(list(extra.items())[:4])}")
        if len(R) > len(given):
            res.nontrivial = True
    res.m("model_variables", len(names))
    if case["rs"] % 10 == 0:
        res.sample = {"model": fname, "variables": len(names)}
    return res.out()


def install_contracts(res, ref):
    from .. import oracles
    from ..instrument import contract
    import biobalm.space_utils as SU

    def post_perc(result, network, space):
        try:
            names = list(network.network_variable_names())
        except Exception:
            return True
        if sorted(names) != sorted(ref.names):
            res.c("ambient_other_network")
            return True
        oracles.judge_percolate(result, ref, space, lambda k, m: res.v(f"percolate-{k}:ambient", m, space=dict(space)), "percolate_space")
        res.c("ambient_percolate_calls")
        return True

    contract(SU, "percolate_space", post_perc)


def _ambient(case, res, ref, bb):
    from ..instrument import remove_contracts, CONTRACTS
    import biobalm.succession_diagram  # noqa: F401
    import biobalm.control  # noqa: F401

    W = Watch(res, ref.n)
    CONTRACTS.reset()
    install_contracts(res, ref)
    try:
        sd = bb.make_sd(case["net"])
        for op in case["history"]:
            holder = {}

            def f(op=op):
                holder["sd"], holder["r"] = history.apply_op(sd, op, ref)

            W(f, nodes=len(sd))
            sd = holder["sd"]
    except bb.Aborted as e:
        res.inconclusive = f"aborted: {e}"
    finally:
        remove_contracts()
    for w in CONTRACTS.witnesses:
        res.v("oracle-error", str(w))
    res.nontrivial = res.cnt.get("ambient_percolate_calls", 0) >= 3
    for v in res.viol:
        v["detail"]["rules"] = rules_text(case["net"])
        v["detail"]["history"] = case["history"]
    return res.out()
