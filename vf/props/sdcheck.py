"""Worker-side structural judges for (partially) expanded diagrams."""
from __future__ import annotations

from ..ref import key


def ref_children_map(rsd):
    rk, nodes, edges, mins = rsd
    ch = {}
    for (p, c), ms in edges.items():
        ch.setdefault(p, {})[c] = sorted(key(m) for m in ms)
    return ch


def check_partial(sd, ref, rsd, res, tag, bb, ctx=None, rch=None, skip_ok=False):
    """Invariants of a lazily built diagram after a plain expansion call:
    every expanded node has exactly its reference successors and motifs, every unexpanded
    node has none, no space appears twice, every node is a node of the full diagram.
    With skip_ok, nodes flagged `skipped` are exempt from the successor comparison (their
    successors must then be minimal trap spaces inside them)."""
    rk, nodes, edges, mins = rsd
    if rch is None:
        rch = ref_children_map(rsd)
    seen = {}
    for i in sd.node_ids():
        d = sd.node_data(i)
        k = bb.kspace(ref, d["space"])
        if k in seen:
            res.v(f"duplicate-node:{tag}", f"space {d['space']} is node {seen[k]} and node {i}", ctx=ctx)
        seen.setdefault(k, i)
        if k not in nodes:
            res.v(f"unknown-node:{tag}", f"node {i} space {d['space']} is not a node of the full diagram", ctx=ctx)
            continue
        succ = list(sd.dag.successors(i))
        if not d["expanded"]:
            if succ:
                res.v(f"stub-with-successors:{tag}", f"node {i} is unexpanded but has successors {succ}", ctx=ctx)
            continue
        if skip_ok and d["skipped"]:
            mk = {key(m) for m in mins}
            for j in succ:
                ck = bb.kspace(ref, sd.node_data(j)["space"])
                if ck not in mk:
                    res.v(f"skip-edge-not-minimal:{tag}", f"skip node {i} has successor {j} that is not a minimal trap space", ctx=ctx)
            exp_m = {key(m) for m in mins if _inside(m, dict(k))}
            got_m = {bb.kspace(ref, sd.node_data(j)["space"]) for j in succ}
            if got_m != exp_m:
                res.v(f"skip-edges-incomplete:{tag}", f"skip node {i} reaches {len(got_m)} of {len(exp_m)} minimal trap spaces inside it", ctx=ctx)
            res.c("skip_nodes_checked")
            continue
        res.c("node_comparisons")
        got = {}
        for j in succ:
            ck = bb.kspace(ref, sd.node_data(j)["space"])
            got[ck] = sorted(bb.kspace(ref, m) for m in sd.edge_all_stable_motifs(i, j))
        exp = rch.get(k, {})
        if set(got) != set(exp):
            res.v(
                f"expanded-node-successors:{tag}",
                f"node {i} {d['space']} is marked expanded with successors {[ref.named(dict(c)) for c in got]}, full diagram has {[ref.named(dict(c)) for c in exp]}",
                ctx=ctx,
            )
        elif got != exp:
            res.v(f"expanded-node-motifs:{tag}", f"node {i} {d['space']}: motif lists differ from the full diagram", ctx=ctx, got=str(got), exp=str(exp))
    return seen


def _inside(m, node):
    return all(m.get(a) == b for a, b in node.items())


def by_space_dump(sd, ref, bb, with_flags=True):
    out = []
    for i in sd.node_ids():
        d = sd.node_data(i)
        ch = []
        for j in sd.dag.successors(i):
            ch.append((bb.kspace(ref, sd.node_data(j)["space"]), tuple(sorted(bb.kspace(ref, m) for m in sd.edge_all_stable_motifs(i, j)))))
        out.append((bb.kspace(ref, d["space"]), bool(d["expanded"]) if with_flags else None, tuple(sorted(ch))))
    return sorted(out)
