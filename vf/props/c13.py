"""C13 — every operation terminates within bounded work; no loop stalls without progress."""
from __future__ import annotations

import random

from .. import gen, history
from .common import Res, net_hash, rules_text

LEVEL = "exploration"
RULE = (
    "random call histories over the whole public surface (construction, all strategies and options, "
    "candidates/seeds/sets/fallback on expanded, unexpanded and skipped nodes, skipping, control, pickling, "
    "reclaim, name sanitising) with default and extreme configurations; every call runs under the "
    "sys.monitoring work meter (executed loop back-edges inside biobalm code vs the budget "
    "B(n,nodes) = 5e4(n+1)^3 + 500(n+1)^2(2^n+nodes+1) + 64*simulation_budget*(n+1)(n+1+nodes) [+ 250(n+1)^2*paths for succession control, paths = "
    "root->node paths of the diagram], nodes = current "
    "size of the diagram when the bound is reached) and the while-loop fingerprint detector (same loop head, same frame, "
    "identical locals 50 times in a row); non-trivial = history with >= 3 metered calls of which one is an "
    "attractor computation; distinct by hash of rules+history"
)
ASSUMPTIONS = [
    "work is measured as executed loop back-edges inside biobalm's own Python code; time spent inside native AEON/clingo calls is covered only by the wall-clock watchdog (inconclusive, never a verdict)",
]
DEADLINE = 240

CONFIGS = [
    {},
    {},
    {"retained_set_optimization_threshold": 0},
    {"retained_set_optimization_threshold": 1},
    {"retained_set_optimization_threshold": 2, "attractor_candidates_limit": 3},
    {"attractor_candidates_limit": 1},
    {"attractor_candidates_limit": 0},
    {"minimum_simulation_budget": 0},
    {"minimum_simulation_budget": 1, "nfvs_size_threshold": 0},
    {"max_motifs_per_node": 2},
    {"nfvs_size_threshold": 1},
    {"minimum_simulation_budget": 20_000},
]

WEIGHTS = {
    "bfs": 2, "dfs": 2, "min": 2, "min_skip": 2, "attr": 2, "target": 1, "block_plain": 1, "block": 2, "scc": 2,
    "succ": 1, "skip": 2, "skiprem": 2, "cand": 4, "seeds": 5, "sets": 3, "xseeds": 3, "xcand": 1, "xsets": 1,
    "reclaim": 1, "pickle": 1, "build": 2, "control": 2, "summary": 1,
}


def cases(tier, seed):
    rng = random.Random(f"C13/{seed}")
    nmax, count = (7, 14000) if tier == "quick" else (9, 50000)
    cl = [("rand", 3), ("rand-wide", 3), ("dense-neg", 4), ("gadget", 3), ("inputs", 1), ("overlap-maa", 0.3), ("rings", 2)]
    nets = gen.corpus() + [gen.draw(rng, cl, nmax) for _ in range(count)]
    nets += [gen.model_net(f) for f in gen.models_up_to(10 if tier == "quick" else 14)]
    out = []
    kinds = list(WEIGHTS)
    w = [WEIGHTS[k] for k in kinds]
    for n in nets:
        for rep in range(2 if n["cls"].startswith("corpus") else 1):
            h = history.gen_history(rng, kinds, rng.randint(2, 7), w)
            # the classic pattern: expand fully, then all seeds
            if rng.random() < 0.25 or n["cls"].startswith("corpus"):
                h = [["bfs", None, None, None], ["xseeds"]] + h
            elif rng.random() < 0.3:
                # raw (un-minified) candidates on a stub, then the exact symbolic filter has to work through all of them
                k = rng.choice([0, 0, rng.randrange(64)])
                h = [["cand", k, False, False], ["seeds", k, False], ["sets", k]] + h
            out.append({"net": n, "cls": n["cls"], "history": h, "config": rng.choice(CONFIGS), "rs": rng.randrange(1 << 30)})
    # large percolated networks (no oracle needed for this property): motif-avoidant core + long chain
    for i in range(12 if tier == "quick" else 60):
        n = gen.maa_chain(rng, rng.randint(14, 20))
        h = [rng.choice([["seeds", 0, False], ["xseeds"], ["cand", 0, True, True]])]
        if rng.random() < 0.5:
            h = [["bfs", None, None, None]] + h + [["xseeds"]]
        out.append({"net": n, "cls": n["cls"], "history": h, "config": {}, "big": True, "rs": rng.randrange(1 << 30)})
    # name sanitising on clashing names
    for i in range(40 if tier == "quick" else 400):
        out.append({"sanitize": rng.randrange(1 << 30), "cls": "sanitize", "rs": i})
    return out


def gate(agg):
    c = agg["cnt"]
    out = [f"monitor counter {k} is zero" for k in ("calls_metered", "loop_heads_fingerprinted", "attractor_calls", "skip_calls", "control_calls") if c.get(k, 0) == 0]
    if agg["max"].get("ratio_to_budget_x1e6", 0) > 100_000:
        out.append("a terminating call used more than 10% of the budget: recalibrate")
    return out


def run_case(case):
    from .. import bb
    from ..instrument import METER
    import hashlib
    import json

    res = Res(case)
    if "sanitize" in case:
        return _sanitize_case(case, res, bb)
    net = case["net"]
    if case.get("big"):
        from .c04 import NameRef

        ref = NameRef(net["names"])
    else:
        ref = bb.ref_of(net)
    ctx = rules_text(net)
    msb = (case.get("config") or {}).get("minimum_simulation_budget", 1000)
    res.hash = hashlib.sha1((net_hash(net) + json.dumps(case["history"])).encode()).hexdigest()[:16]
    hist_done = []

    bb.track_diagrams()
    bb._LIVE_SDS.clear()
    n1 = ref.n + 1
    node_cap = 3 ** min(ref.n, 12)

    def run(fn, label, nodes, cur=None):
        def bound():
            # nodes = size of the largest live diagram when the bound is evaluated (at the start of the call
            # and again whenever it is reached: whole-diagram operations grow the diagram while they run);
            # the simulation budget is a user-set amount of work per node: it enters the bound linearly
            k = min(max(nodes, bb.live_nodes(), len(cur) if cur is not None else 0), node_cap)
            b = bb.budget_for(min(ref.n, 24), k) + 64 * msb * n1 * (n1 + k)
            if label == "control":
                # succession control enumerates successions = root->node paths of the diagram (39 912 of them in a
                # 107-node diagram with skip nodes, 8 variables): its work is proportional to that output size
                b += 250 * n1 * n1 * bb.live_paths(extra=cur)
            return b

        try:
            r, used = bb.metered(fn, bound, fingerprints=True)
            B = bound()
        except bb.Aborted as e:
            fn_name = e.where.split(" ")[0].split(":")[0]
            res.v(
                f"{e.kind}:{fn_name}",
                f"{label} did not finish: {e}",
                ctx=ctx,
                history=hist_done + [label],
                config=case.get("config"),
            )
            return None, False
        res.c("calls_metered")
        res.m("back_edges_per_call", used)
        res.m(f"back_edges:n={ref.n:02d}", used)
        res.m("ratio_to_budget_x1e6", int(1e6 * used / B))
        res.m(f"ratio_x1e6:{label.split('(')[0]}", int(1e6 * used / B))
        return r, True

    heads0 = METER.heads_seen
    sd, ok = run(lambda: bb.make_sd(net, case.get("config")), "construct", 1)
    if not ok:
        return res.out()
    metered_calls = 0
    attr_call = False
    for op in case["history"]:
        label = op[0]
        holder = {}

        def f(op=op):
            s2, r = history.apply_op(sd, op, ref)
            holder["sd"] = s2
            return r

        r, ok = run(f, label, len(sd), sd)
        hist_done.append(label)
        if not ok:
            break
        sd = holder["sd"]
        metered_calls += 1
        if label in ("cand", "seeds", "sets", "xseeds", "xcand", "xsets", "build"):
            attr_call = True
            res.c("attractor_calls")
        if label in ("skip", "skiprem"):
            res.c("skip_calls")
        if label == "control":
            res.c("control_calls")
        if r and "exc" in r:
            res.c(f"exc:{r['exc']}")
    res.c("loop_heads_fingerprinted", METER.heads_seen - heads0)
    res.nontrivial = metered_calls >= 3 and attr_call
    if res.nontrivial and case.get("rs", 0) % 60 == 0:
        res.sample = {"rules": ctx, "history": case["history"], "config": case.get("config")}
    return res.out()


def _sanitize_case(case, res, bb):
    """sanitize_network_names on names that clash after sanitising."""
    from biodivine_aeon import BooleanNetwork
    from biobalm.petri_net_translation import sanitize_network_names

    rng = random.Random(case["sanitize"])
    base = rng.choice(["c", "x_", "_a", "Gene"])
    pool = [base + "[", base + "]", base + "_", "_" + base + "_", base + "{1}", base + "{2}", "__" + base + "_", base + "."]
    names = rng.sample(pool, rng.randint(2, 5))
    res.hash = "san" + str(case["sanitize"])
    try:
        bn = BooleanNetwork(names)
    except Exception as e:
        res.inconclusive = f"aeon-rejects-names: {e}"
        return res.out()
    try:
        _, used = bb.metered(lambda: sanitize_network_names(bn), 200_000, fingerprints=True)
        res.c("calls_metered")
        res.c("sanitize_calls")
        res.m("back_edges_per_call", used)
        res.nontrivial = True
    except bb.Aborted as e:
        res.v(f"{e.kind}:sanitize_network_names", f"sanitize_network_names({names}) did not finish: {e}")
    return res.out()
