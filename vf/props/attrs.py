"""Worker-side helpers for judging attractor answers against the reference model."""
from __future__ import annotations


def node_expected(ref, sd, i, bb):
    """Reference attractors (bitsets) that belong to node i: inside its space and inside none
    of its *current* successors' spaces."""
    sp = ref.sp(sd.node_data(i)["space"])
    succ = [ref.sp(sd.node_data(j)["space"]) for j in sd.dag.successors(i)]
    out = []
    for a in ref.attractors():
        if not ref.attractor_in_space(a, sp):
            continue
        if any(ref.attractor_in_space(a, s) for s in succ):
            continue
        out.append(a)
    return out


def judge_seeds(ref, sd, i, seeds, res, tag, bb, exact=True, ctx=None):
    """Check the seed list of node i.  Returns the list of attractors hit (None for bad seeds).

    exact=True  : ordinary node — seeds must be in bijection with node_expected
    exact=False : skip node — sound (in an attractor inside the node, not inside a successor)
                  and duplicate-free
    """
    d = sd.node_data(i)
    sp = ref.sp(d["space"])
    succ = [ref.sp(sd.node_data(j)["space"]) for j in sd.dag.successors(i)]
    hit = []
    for s in seeds:
        if not bb.is_full_state(ref, s):
            res.v(f"seed-not-full-state:{tag}", f"node {i} seed {s}", ctx=ctx)
            hit.append(None)
            continue
        st = ref.state_of(s)
        a = ref.attractor_of(st)
        if a is None:
            res.v(f"seed-not-in-attractor:{tag}", f"node {i} ({d['space']}) seed {s} lies in no attractor", ctx=ctx)
            hit.append(None)
            continue
        if not ref.attractor_in_space(a, sp):
            res.v(f"seed-attractor-outside-node:{tag}", f"node {i} ({d['space']}) seed {s}", ctx=ctx)
        elif any(ref.attractor_in_space(a, c) for c in succ):
            res.v(f"seed-attractor-inside-successor:{tag}", f"node {i} ({d['space']}) seed {s}", ctx=ctx)
        hit.append(a)
    good = [a for a in hit if a is not None]
    if len(set(good)) != len(good):
        res.v(f"two-seeds-one-attractor:{tag}", f"node {i} ({d['space']}) seeds {seeds}", ctx=ctx)
    if exact:
        exp = node_expected(ref, sd, i, bb)
        missing = [a for a in exp if a not in good]
        if missing:
            res.v(
                f"attractor-missed:{tag}",
                f"node {i} ({d['space']}) has {len(exp)} attractor(s) outside its successors, seeds {seeds} miss {len(missing)}",
                ctx=ctx,
            )
    return hit


def judge_candidates(ref, sd, i, cands, res, tag, bb, ctx=None):
    d = sd.node_data(i)
    sp = ref.sp(d["space"])
    states = set()
    for c in cands:
        if not bb.is_full_state(ref, c):
            res.v(f"candidate-not-full-state:{tag}", f"node {i} candidate {c}", ctx=ctx)
            continue
        st = ref.state_of(c)
        if not (ref.sub(sp) >> st) & 1:
            res.v(f"candidate-outside-node:{tag}", f"node {i} ({d['space']}) candidate {c}", ctx=ctx)
        states.add(st)
    exp = node_expected(ref, sd, i, bb)
    bits = bb.bits_of(states)
    miss = [a for a in exp if not (a & bits)]
    if miss:
        res.v(
            f"candidates-miss-attractor:{tag}",
            f"node {i} ({d['space']}, expanded={d['expanded']}, skipped={d['skipped']}) candidates {cands} "
            f"cover {len(exp) - len(miss)} of {len(exp)} attractors",
            ctx=ctx,
        )
    return len(exp)


def judge_sets(ref, sd, i, sets, seeds, res, tag, bb, ctx=None):
    d = sd.node_data(i)
    if len(sets) != len(seeds):
        res.v(f"sets-seeds-length:{tag}", f"node {i}: {len(sets)} sets for {len(seeds)} seeds", ctx=ctx)
        return
    for vs, seed in zip(sets, seeds):
        states, problems = bb.vset_states(ref, vs)
        if problems:
            res.v(f"set-not-over-all-variables:{tag}", f"node {i}: {problems[:2]}", ctx=ctx)
            continue
        if not bb.is_full_state(ref, seed):
            continue
        a = ref.attractor_of(ref.state_of(seed))
        if a is None:
            # the seed itself is wrong (reported by the seed judge); the set cannot be right either
            res.v(f"set-for-non-attractor-seed:{tag}", f"node {i} ({d['space']}) seed {seed}", ctx=ctx)
            continue
        if bb.bits_of(states) != a:
            res.v(
                f"set-differs-from-attractor:{tag}",
                f"node {i} ({d['space']}) seed {seed}: set has {len(states)} states, attractor has {a.bit_count()}",
                ctx=ctx,
            )
        res.c("sets_compared")
        if a.bit_count() > 1:
            res.c("complex_sets_compared")
