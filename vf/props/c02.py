"""C02 — a fully expanded diagram is exactly the hierarchy of percolated trap spaces."""
from __future__ import annotations

from .common import Res, Watch, net_hash, rules_text, std_cases

LEVEL = "exploration"
RULE = (
    "networks from corpus + all 256 two-variable networks + rand/gadget/inputs/dense-neg generators "
    "(+ repository models <= 10 variables); each expanded with BFS and DFS and compared node by node "
    "with the reference succession diagram (explicit enumeration of all 3^n subspaces); non-trivial = "
    "reference diagram has >= 3 nodes; distinct by hash of the rule text"
)
ASSUMPTIONS = [
    "reference model vf/ref.py (explicit enumeration) is the ground truth",
    "biodivine_aeon parses the fully parenthesised bnet text emitted by the harness",
]
DEADLINE = 300


def cases(tier, seed):
    if tier == "quick":
        return std_cases(seed, "C02", 12000, [("rand", 4), ("gadget", 3), ("inputs", 2), ("dense-neg", 1), ("rand-wide", 1)], 8, exh2=True, models_nmax=9)
    return std_cases(seed, "C02", 60000, [("rand", 4), ("gadget", 3), ("inputs", 2), ("dense-neg", 1), ("rand-wide", 1), ("overlap-maa", 0.2)], 9, exh2=True, models_nmax=10)


def gate(agg):
    c = agg["cnt"]
    out = []
    for k in ("nodes_compared", "edges_compared", "multi_motif_edges", "shared_children", "roots_with_sources"):
        if c.get(k, 0) == 0:
            out.append(f"monitor counter {k} is zero")
    return out


def compare_full(sd, ref, res, tag, bb, rsd=None):
    """Compare a diagram that claims to be fully expanded with the reference diagram."""
    from ..ref import key

    rk, nodes, edges, mins = rsd or ref.succession_diagram()
    spaces = {}
    for i in sd.node_ids():
        d = sd.node_data(i)
        k = bb.kspace(ref, d["space"])
        if k in spaces:
            res.v(f"duplicate-node:{tag}", f"space {d['space']} appears as nodes {spaces[k]} and {i}", rules=rules_text(res.case["net"]))
        spaces.setdefault(k, i)
        if not d["expanded"]:
            res.v(f"unexpanded-after-full:{tag}", f"node {i} not expanded after full expansion")
        sp = ref.sp(d["space"])
        if not ref.is_trap(sp):
            res.v(f"node-not-trap:{tag}", f"node {i} space {d['space']} is not a trap space")
        elif ref.percolate(sp) != sp:
            res.v(f"node-not-percolated:{tag}", f"node {i} space {d['space']} is not closed under percolation")
    if bb.kspace(ref, sd.node_data(sd.root())["space"]) != rk:
        res.v(f"root-space:{tag}", f"root space {sd.node_data(0)['space']} != percolation of the whole space {ref.named(dict(rk))}")
    if set(spaces) != set(nodes):
        miss = [ref.named(dict(k)) for k in set(nodes) - set(spaces)]
        extra = [ref.named(dict(k)) for k in set(spaces) - set(nodes)]
        res.v(f"node-set:{tag}", f"missing {miss[:3]} spurious {extra[:3]}", rules=rules_text(res.case["net"]))
    ref_children = {}
    for (p, c), ms in edges.items():
        ref_children.setdefault(p, {})[c] = sorted(key(m) for m in ms)
    for k, i in spaces.items():
        if k not in nodes:
            continue
        res.c("nodes_compared")
        got = {}
        for j in sd.node_successors(i):
            ck = bb.kspace(ref, sd.node_data(j)["space"])
            ms = [bb.kspace(ref, m) for m in sd.edge_all_stable_motifs(i, j)]
            if len(set(ms)) != len(ms):
                res.v(f"motif-repeated:{tag}", f"edge {i}->{j} lists a motif twice")
            got[ck] = sorted(ms)
            if bb.kspace(ref, sd.edge_stable_motif(i, j)) not in ms:
                res.v(f"edge-motif-not-in-list:{tag}", f"edge {i}->{j}")
            red = sd.edge_stable_motif(i, j, reduced=True)
            if any(x in sd.node_data(i)["space"] for x in red):
                res.v(f"reduced-motif-not-reduced:{tag}", f"edge {i}->{j}")
            res.c("edges_compared")
            if len(ms) > 1:
                res.c("multi_motif_edges")
        exp = ref_children.get(k, {})
        if set(got) != set(exp):
            res.v(
                f"successors:{tag}",
                f"node {ref.named(dict(k))}: successors {[ref.named(dict(c)) for c in got]} expected {[ref.named(dict(c)) for c in exp]}",
                rules=rules_text(res.case["net"]),
            )
        elif got != exp:
            res.v(f"edge-motifs:{tag}", f"node {ref.named(dict(k))}: motif groups differ", got=str(got), exp=str(exp), rules=rules_text(res.case["net"]))
    mk = sorted(key(m) for m in mins)
    got_min = sorted(bb.kspace(ref, sd.node_data(i)["space"]) for i in sd.minimal_trap_spaces())
    if got_min != mk:
        res.v(f"minimal-trap-spaces:{tag}", f"got {len(got_min)} expected {len(mk)}", rules=rules_text(res.case["net"]))
    leaves = sorted(k for k, i in spaces.items() if sd.dag.out_degree(i) == 0)
    if leaves != mk:
        res.v(f"leaves:{tag}", "nodes without successors are not exactly the minimal trap spaces")
    indeg = sum(1 for i in sd.node_ids() if sd.dag.in_degree(i) >= 2)
    res.c("shared_children", indeg)
    return len(nodes)


def run_case(case):
    from .. import bb

    net = case["net"]
    res = Res(case)
    res.hash = net_hash(net)
    ref = bb.ref_of(net)
    W = Watch(res, ref.n)
    rsd = ref.succession_diagram()
    if ref.sources():
        res.c("roots_with_sources")
    if any(f in (0, ref.ALL) for f in ref.F1):
        res.c("nets_with_constants")
    nn = 0
    def full(sd, strat):
        if strat == "bfs":
            return sd.expand_bfs()
        if strat == "dfs":
            return sd.expand_dfs()
        # "bfs-cached": the children's percolated nets / attractor data are cached before they are expanded
        sd.expand_bfs(bfs_level_limit=0)
        for i in list(sd.stub_ids()):
            try:
                sd.node_attractor_candidates(i, compute=True)
            except RuntimeError:
                pass
            sd.node_percolated_petri_net(i, compute=True)
        return sd.expand_bfs()

    for strat in ("bfs", "dfs", "bfs-cached"):
        try:
            sd = bb.make_sd(net)
            ok = W(lambda: full(sd, strat))
        except bb.Aborted as e:
            res.inconclusive = f"aborted: {e}"
            return res.out()
        if ok is not True:
            res.v(f"returned-false:{strat}", "unrestricted expansion returned False")
        nn = compare_full(sd, ref, res, strat, bb, rsd)
    res.nontrivial = nn >= 3
    res.m("nodes", nn)
    if res.nontrivial and case.get("rs", 0) % 50 == 0:
        res.sample = {"rules": rules_text(net), "nodes": nn, "class": net["cls"]}
    return res.out()
