"""Worker-side reference definitions for succession control (C06, C07)."""
from __future__ import annotations

import itertools

from ..ref import issub, key, consistent


def expected_drivers(ref, motif: dict, A: dict, strategy: str, max_drivers, forbidden: set):
    """All valuations of the inclusion-minimal variable sets (within pool minus forbidden,
    size <= bound) whose LDOI together with the accumulated values A contains the motif.
    Mirrors the *documented* search: sets are minimal by variable set."""
    inner = {k: v for k, v in motif.items() if k not in A}
    if strategy == "internal":
        pool = sorted(k for k in inner if k not in forbidden)
    else:
        pool = [i for i in range(ref.n) if i not in forbidden]
    bound = len(inner) if max_drivers is None else max_drivers
    found = []
    foundsets = []
    for size in range(bound + 1):
        new = []
        for vs in itertools.combinations(pool, size):
            if any(set(f) <= set(vs) for f in foundsets):
                continue
            if strategy == "internal":
                valss = [tuple(inner[v] for v in vs)]
            else:
                valss = itertools.product([0, 1], repeat=size)
            hit = False
            for vals in valss:
                d = dict(zip(vs, vals))
                mg = dict(d)
                mg.update(A)
                l = ref.percolate(mg)
                if all(l.get(a) == b for a, b in motif.items()):
                    found.append(key(d))
                    hit = True
            if hit:
                new.append(vs)
        foundsets += new
    return sorted(found)


def override_forces_motif(ref, S_prev: dict, d: dict, motif: dict) -> bool:
    """Semantic test: in the network with f_v := d[v], every attractor reachable from a
    state of S_prev has the motif's values."""
    o = ref.override(d)
    R = o.fwd(o.sub(S_prev))
    bad = 0
    for i, v in motif.items():
        bad |= o.V0[i] if v else o.V1[i]
    for a in o.attractors():
        if a & R and a & bad:
            return False
    return True


def expected_successions(ref, rsd, expanded_keys, present_keys, tgt: dict):
    """Expected successions (tuples of reduced-motif keys) on the partial diagram induced by
    the nodes the call actually expanded."""
    rk, nodes, edges, mins = rsd
    part_edges = {(p, c): ms for (p, c), ms in edges.items() if p in expanded_keys}
    part_nodes = {rk} | {c for (p, c) in part_edges}
    parents = {}
    for (p, c) in part_edges:
        parents.setdefault(c, []).append(p)

    def valid(k):
        d = dict(k)
        return all((not issub(m, d)) or issub(m, tgt) for m in mins)

    memo = {}

    def paths_to(s):
        if s in memo:
            return memo[s]
        if s == rk:
            r = [[rk]]
        else:
            r = []
            for p in parents.get(s, []):
                for pa in paths_to(p):
                    r.append(pa + [s])
        memo[s] = r
        return r

    exp = []
    anyvalid = False
    for s in sorted(part_nodes):
        if not valid(s):
            continue
        anyvalid = True
        if not any(not valid(p) for p in parents.get(s, [])):
            continue
        for pa in paths_to(s):
            lists = []
            for x, y in zip(pa[:-1], pa[1:]):
                px = dict(x)
                lists.append([key({a: b for a, b in m.items() if a not in px}) for m in part_edges[(x, y)]])
            for combo in itertools.product(*lists):
                exp.append(tuple(combo))
    if anyvalid and not exp:
        exp = [()]
    return sorted(exp), part_nodes


def expansion_rule_violations(present_keys, expanded_keys, tgt):
    """The two unambiguous rules of target-directed expansion."""
    out = []
    tk = key(tgt)
    for k in present_keys:
        d = dict(k)
        cons = consistent(d, tgt)
        inside = issub(d, tgt)
        if cons and not inside and k not in expanded_keys:
            out.append(("consistent-not-inside-but-unexpanded", d))
        if not cons and k in expanded_keys:
            out.append(("inconsistent-but-expanded", d))
        if inside and k != tk and k in expanded_keys:
            out.append(("strictly-inside-but-expanded", d))
    return out
