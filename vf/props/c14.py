"""C14 — cached attractor data is never stale."""
from __future__ import annotations

import hashlib
import json
import random

from .. import gen, history
from .common import Res, Watch, net_hash, rules_text

LEVEL = "exploration"
RULE = (
    "random histories (3-10 calls) mixing attractor queries on arbitrary nodes (stubs included) with every operation "
    "that can give a node successors (all strategies incl. source shortcuts and SCC attachment, skip_to_minimal, "
    "skip_remaining, expand_minimal_spaces(skip_ignored)), reclaim_node_data and pickling. After EVERY call, whatever "
    "node_attractor_candidates/seeds/sets(id, compute=False) report for every node is judged against the reference "
    "attractors and the node's CURRENT successors (exact for ordinary nodes, sound + duplicate-free for skip nodes); "
    "and, from the write-event log of the node dictionaries, a node that went expanded False->True with successors "
    "while a non-None cache field received no write during the call is reported. non-trivial = a node queried as a "
    "stub later gained successors; distinct by rules+history"
)
ASSUMPTIONS = ["reference model vf/ref.py"]
DEADLINE = 300

WEIGHTS = {
    "bfs": 2, "dfs": 2, "min": 2, "min_skip": 3, "attr": 2, "target": 1, "block_plain": 1, "block": 3, "scc": 3,
    "succ": 2, "skip": 4, "skiprem": 3, "cand": 5, "seeds": 6, "sets": 3, "xseeds": 2, "xcand": 1, "xsets": 1,
    "reclaim": 1, "pickle": 1,
}


def cases(tier, seed):
    rng = random.Random(f"C14/{seed}")
    nmax, count = (7, 9000) if tier == "quick" else (8, 50000)
    cl = [("gadget", 5), ("inputs", 3), ("rand", 3), ("dense-neg", 1), ("overlap-maa", 0.3), ("rand-wide", 1), ("rings", 2), ("cond-maa", 2)]
    nets = gen.corpus() + [gen.draw(rng, cl, nmax) for _ in range(count)]
    kinds = list(WEIGHTS)
    w = [WEIGHTS[k] for k in kinds]
    out = []
    for n in nets:
        h = history.gen_history(rng, kinds, rng.randint(3, 10), w)
        if rng.random() < 0.5:
            # the pattern of interest: query a stub, then give it successors
            k = rng.randrange(64)
            q = rng.choice([["seeds", k, False], ["cand", k, True, True], ["sets", k]])
            h = [q] + h
        out.append({"net": n, "cls": n["cls"], "history": h, "rs": rng.randrange(1 << 30)})
    return out


def gate(agg):
    c = agg["cnt"]
    need = ["calls", "cached_seed_lists_judged", "cached_candidate_lists_judged", "cached_set_lists_judged", "stub_queries", "stub_then_successors", "skip_nodes_judged", "expanded_write_events"]
    return [f"monitor counter {k} is zero" for k in need if c.get(k, 0) == 0]


def judge_all(sd, ref, res, tag, bb, ctx):
    from .attrs import judge_candidates, judge_seeds, judge_sets

    for i in sd.node_ids():
        d = sd.node_data(i)
        skip = bool(d["skipped"])
        try:
            seeds = sd.node_attractor_seeds(i, compute=False)
        except KeyError:
            seeds = None
        try:
            cands = sd.node_attractor_candidates(i, compute=False)
        except KeyError:
            cands = None
        try:
            sets = sd.node_attractor_sets(i, compute=False)
        except KeyError:
            sets = None
        kind = "skip" if skip else ("expanded" if d["expanded"] else "stub")
        if seeds is not None:
            judge_seeds(ref, sd, i, seeds, res, f"{kind}", bb, exact=not skip, ctx=ctx)
            res.c("cached_seed_lists_judged")
            if skip:
                res.c("skip_nodes_judged")
        if cands is not None and not skip:
            judge_candidates(ref, sd, i, cands, res, f"{kind}", bb, ctx=ctx)
            res.c("cached_candidate_lists_judged")
        if sets is not None:
            if seeds is None:
                res.v(f"sets-without-seeds:{kind}", f"node {i} reports attractor sets but no seeds", ctx=ctx)
            else:
                judge_sets(ref, sd, i, sets, seeds, res, f"{kind}", bb, ctx=ctx)
                res.c("cached_set_lists_judged")


def run_case(case):
    from .. import bb
    from ..instrument import TRACE, trace_sd

    net = case["net"]
    res = Res(case)
    res.hash = hashlib.sha1((net_hash(net) + json.dumps(case["history"])).encode()).hexdigest()[:16]
    ref = bb.ref_of(net)
    W = Watch(res, ref.n)
    rules = rules_text(net)
    sd = bb.make_sd(net)
    trace_sd(sd)
    my_tag = sd.dag.graph.get("vf_tag")
    TRACE.reset()
    done = []
    queried_as_stub = set()
    nt = False
    try:
        for op in case["history"]:
            # snapshot of cache fields and flags before the call
            pre = {i: (bool(sd.node_data(i)["expanded"]), {f: sd.node_data(i)[f] is not None for f in ("attractor_candidates", "attractor_seeds", "attractor_sets")}) for i in sd.node_ids()}
            if op[0] in ("cand", "seeds", "sets"):
                nid = op[1] % len(sd)
                if not sd.node_data(nid)["expanded"]:
                    queried_as_stub.add(nid)
                    res.c("stub_queries")
            TRACE.call_index += 1
            ci = TRACE.call_index
            TRACE.on = True
            holder = {}

            def f(op=op):
                s2, r = history.apply_op(sd, op, ref)
                holder["sd"] = s2
                holder["r"] = r

            try:
                W(f, nodes=len(sd))
            finally:
                TRACE.on = False
            sd = holder["sd"]
            if op[0] == "pickle":
                trace_sd(sd)
                my_tag = sd.dag.graph.get("vf_tag")
            r = holder["r"]
            done.append([op[0]] + [x for x in op[1:2] if isinstance(x, int)] + ([r["exc"]] if "exc" in r else []))
            res.c("calls")
            ctx = {"rules": rules, "history": done, "full_history": case["history"]}
            if r.get("exc") in ("AssertionError", "TypeError", "AttributeError", "IndexError"):
                res.c(f"exc:{r['exc']}")
            # ---- event rule
            ev = [e for e in TRACE.events if e[0] == ci and e[1] == my_tag]
            res.c("expanded_write_events", sum(1 for e in ev if e[3] == "expanded" and e[5] is True))
            for i, (was_exp, had) in pre.items():
                if i >= len(sd):
                    continue
                d = sd.node_data(i)
                if not was_exp and d["expanded"] and sd.dag.out_degree(i) > 0:
                    if i in queried_as_stub:
                        nt = True
                        res.c("stub_then_successors")
                    setter = next((e[6] for e in ev if e[2] == i and e[3] == "expanded" and e[5] is True), "?")
                    for fld, present in had.items():
                        if present and not any(e[2] == i and e[3] == fld for e in ev):
                            res.v(
                                f"stale:{fld}:{setter}",
                                f"node {i} got successors in {op[0]} (expanded set by {setter}) but its {fld}, computed while it had none, received no write",
                                ctx=ctx,
                            )
            # ---- semantic rule
            judge_all(sd, ref, res, op[0], bb, ctx)
            if res.viol:
                break
    except bb.Aborted as e:
        res.inconclusive = f"aborted: {e}"
    finally:
        TRACE.on = False
    res.nontrivial = nt
    if nt and case["rs"] % 60 == 0:
        res.sample = {"rules": rules, "history": case["history"]}
    return res.out()
