"""C01 — reported attractor seeds correspond one-to-one to the network's attractors."""
from __future__ import annotations

from .common import Res, Watch, net_hash, rules_text, std_cases

LEVEL = "exploration"
RULE = (
    "each network is expanded from a fresh diagram by each of the six complete default strategies "
    "(build, expand_block, expand_bfs, expand_dfs, expand_scc, expand_attractor_seeds) and "
    "expanded_attractor_seeds() is judged against the terminal SCCs of the explicit asynchronous "
    "transition graph; non-trivial = >= 2 attractors or a complex attractor or a motif-avoidant one; "
    "distinct by hash of the rule text"
)
ASSUMPTIONS = ["reference model vf/ref.py (explicit transition graph) is the ground truth"]
DEADLINE = 300
STRATEGIES = ["build", "block", "bfs", "dfs", "scc", "attr"]


def cases(tier, seed):
    cl = [("rand", 3), ("rand-wide", 2), ("dense-neg", 3), ("gadget", 4), ("inputs", 2), ("overlap-maa", 0.3), ("rings", 2), ("cond-maa", 3)]
    if tier == "quick":
        return std_cases(seed, "C01", 4500, cl, 7, exh2=True, models_nmax=9)
    return std_cases(seed, "C01", 30000, cl, 9, exh2=True, models_nmax=12)


def gate(agg):
    c = agg["cnt"]
    return [f"monitor counter {k} is zero" for k in ("attractors_matched", "complex_attractors", "maa_networks", "nodes_nfvs_all_free") if c.get(k, 0) == 0]


def run_strategy(sd, strat):
    if strat == "build":
        sd.build()
        return True
    if strat == "block":
        return sd.expand_block()
    if strat == "bfs":
        return sd.expand_bfs()
    if strat == "dfs":
        return sd.expand_dfs()
    if strat == "scc":
        return sd.expand_scc()
    if strat == "attr":
        return sd.expand_attractor_seeds()
    raise ValueError(strat)


def run_case(case):
    from .. import bb
    from .attrs import judge_seeds

    net = case["net"]
    res = Res(case)
    res.hash = net_hash(net)
    ref = bb.ref_of(net)
    atts = ref.attractors()
    W = Watch(res, ref.n)
    cx = sum(1 for a in atts if a.bit_count() > 1)
    maa = ref.has_maa()
    res.nontrivial = len(atts) >= 2 or cx > 0 or maa
    if maa:
        res.c("maa_networks")
    res.c("complex_attractors", cx)
    ctx = rules_text(net)
    for strat in case.get("strategies", STRATEGIES):
        try:
            sd = bb.make_sd(net)
            done = W(lambda: run_strategy(sd, strat))
            if done is not True:
                res.v(f"not-complete:{strat}", f"default {strat} returned {done}", ctx=ctx)
                continue
            seeds = W(lambda: sd.expanded_attractor_seeds(), nodes=len(sd))
        except bb.Aborted as e:
            res.c("aborted_calls")
            res.inconclusive = f"aborted: {e}"
            continue
        res.c("strategy_runs")
        per_attr = {}
        holders = {}
        for i, ss in seeds.items():
            if not sd.node_data(i)["expanded"]:
                res.v(f"seeds-for-unexpanded-node:{strat}", f"node {i}", ctx=ctx)
            nf = sd.node_data(i).get("percolated_nfvs")
            if nf is not None and len(nf) + len(sd.node_data(i)["space"]) == ref.n and len(nf) > 0:
                res.c("nodes_nfvs_all_free")
            if len(ss) >= 2:
                res.c("nodes_with_2plus_seeds")
            hit = judge_seeds(ref, sd, i, ss, res, strat, bb, exact=False, ctx=ctx)
            for a in hit:
                if a is not None:
                    per_attr[a] = per_attr.get(a, 0) + 1
                    holders.setdefault(a, []).append(i)
        for a in atts:
            k = per_attr.get(a, 0)
            if k == 0:
                res.v(f"attractor-without-seed:{strat}", f"attractor {ref.states(a)[:8]} ({a.bit_count()} states) has no seed in the diagram", ctx=ctx)
            elif k > 1:
                # mechanism: is one reporting node a strict subspace of another one without being reachable from it
                # (diagram lacks a path between nested nodes), or something else?
                import networkx as nx
                from ..ref import issub

                hs = holders.get(a, [])
                mech = "other"
                # In a proper succession diagram an attractor inside two nodes lies inside a successor of at least
                # one of them. A cross-node duplicate therefore means that some reporting node does not have all of
                # its reference successors (percolated maximal trap spaces): is that the case here?
                from ..ref import key as _key

                for x in set(hs):
                    sx = ref.sp(sd.node_data(x)["space"])
                    want = set(ref.children_of(sx, is_root=(x == sd.root())).keys())
                    got = {_key(ref.sp(sd.node_data(j)["space"])) for j in sd.dag.successors(x)}
                    if not want <= got:
                        mech = "reporting-node-lacks-reference-successors"
                res.v(f"attractor-with-{min(k, 2)}plus-seeds:{strat}:{mech}", f"attractor {ref.states(a)[:8]} has {k} seeds (nodes {hs})", ctx=ctx)
            else:
                res.c("attractors_matched")
    if res.nontrivial and case.get("rs", 0) % 40 == 0:
        res.sample = {"rules": ctx, "attractors": len(atts), "complex": cx, "maa": maa, "class": net["cls"]}
    return res.out()
