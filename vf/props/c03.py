"""C03 — every complete expansion strategy finds exactly the minimal trap spaces."""
from __future__ import annotations

import random

from .. import gen, history
from .common import Res, Watch, net_hash, rules_text

LEVEL = "exploration"
RULE = (
    "per network: (1) every strategy/option combination from a fresh root (BFS, DFS, block x maa x source-shortcut x "
    "exact, SCC x maa, minimal-space x skip_ignored, attractor-seed); (2) each strategy stopped at a size limit and "
    "completed by skip_remaining / skip_to_minimal on every stub; (3) BFS/DFS/minimal-space/attractor-seed after a "
    "random prefix of plain expansion calls. minimal_trap_spaces() and node_is_minimal are compared with the "
    "inclusion-minimal trap spaces found by enumerating all 3^n subspaces. non-trivial = >= 2 minimal trap spaces "
    "or a reference diagram with >= 4 nodes; distinct by rule text"
)
ASSUMPTIONS = ["reference model vf/ref.py"]
DEADLINE = 300


def plans_for(rng, tier):
    P = []
    P.append(["fresh", ["bfs", None, None, None]])
    P.append(["fresh", ["dfs", None, None, None]])
    for maa in (True, False):
        for src in (True, False):
            for exact in (True, False):
                P.append(["fresh", ["block", maa, None, src, exact]])
        P.append(["fresh", ["scc", maa]])
    for sk in (True, False):
        P.append(["fresh", ["min", None, None, sk]])
    P.append(["fresh", ["attr", None]])
    # early stop + completion by skipping
    for _ in range(4 if tier == "quick" else 8):
        strat = rng.choice(["bfs", "dfs", "min", "min_skip", "attr", "block", "block_plain"])
        L = rng.randint(1, 8)
        op = {
            "bfs": ["bfs", None, rng.choice([None, 0, 1, 2]), ["abs", L]],
            "dfs": ["dfs", None, rng.choice([None, 0, 1, 2]), ["abs", L]],
            "min": ["min", None, ["abs", L], False],
            "min_skip": ["min", None, ["abs", L], True],
            "attr": ["attr", ["abs", L]],
            "block": ["block", rng.random() < 0.5, ["abs", L], True, False],
            "block_plain": ["block", rng.random() < 0.5, ["abs", L], False, False],
        }[strat]
        P.append(["skipfinish", op, rng.choice(["skiprem", "each", "mixed"]), rng.randrange(1 << 20)])
    # resume after plain prefix
    for _ in range(3 if tier == "quick" else 6):
        pre = history.gen_history(rng, history.PLAIN, rng.randint(1, 5))
        fin = rng.choice([["bfs", None, None, None], ["dfs", None, None, None], ["min", None, None, False], ["min", None, None, True], ["attr", None],
                          ["bfs", None, rng.randint(0, 3), None], ["dfs", None, rng.randint(0, 3), None]])
        P.append(["prefix", pre, fin])
    return P


def cases(tier, seed):
    rng = random.Random(f"C03/{seed}")
    nmax, count = (7, 3500) if tier == "quick" else (9, 20000)
    cl = [("rand", 4), ("gadget", 4), ("inputs", 3), ("dense-neg", 1), ("rand-wide", 1), ("overlap-maa", 0.3)]
    nets = gen.corpus() + [gen.exh2(i) for i in range(0, 256, 1 if tier != "quick" else 3)]
    nets += [gen.model_net(f) for f in gen.models_up_to(9 if tier == "quick" else 10)]
    nets += [gen.draw(rng, cl, nmax) for _ in range(count)]
    return [{"net": n, "cls": n["cls"], "plans": plans_for(rng, tier), "rs": rng.randrange(1 << 30)} for n in nets]


def gate(agg):
    c = agg["cnt"]
    return [f"monitor counter {k} is zero" for k in ("plans_checked", "skip_completions", "prefix_resumes", "stops_at_limit", "block_source_shortcuts") if c.get(k, 0) == 0]


def _abs(op):
    """size limits of the form ["abs", L] are absolute"""
    return [(x[1] if isinstance(x, list) and len(x) == 2 and x[0] == "abs" else x) for x in op]


def _apply(sd, op, ref):
    op = list(op)
    kind = op[0]
    o = _abs(op)
    if kind == "bfs":
        return sd.expand_bfs(o[1], o[2], o[3])
    if kind == "dfs":
        return sd.expand_dfs(o[1], o[2], o[3])
    if kind == "min":
        return sd.expand_minimal_spaces(o[1], o[2], o[3])
    if kind == "attr":
        return sd.expand_attractor_seeds(o[1])
    if kind == "block":
        return sd.expand_block(o[1], o[2], o[3], o[4])
    if kind == "scc":
        return sd.expand_scc(o[1])
    raise ValueError(kind)


def judge_minimal(sd, ref, mins_k, res, tag, bb, ctx):
    got = [bb.kspace(ref, sd.node_data(i)["space"]) for i in sd.minimal_trap_spaces()]
    if len(set(got)) != len(got):
        res.v(f"minimal-duplicated:{tag}", "a minimal trap space is listed twice", ctx=ctx)
    miss = [ref.named(dict(k)) for k in set(mins_k) - set(got)]
    spur = [ref.named(dict(k)) for k in set(got) - set(mins_k)]
    if miss:
        res.v(f"minimal-missing:{tag}", f"minimal trap spaces missing: {miss[:3]} (got {len(got)}, expected {len(mins_k)})", ctx=ctx)
    if spur:
        res.v(f"minimal-spurious:{tag}", f"reported minimal but not an inclusion-minimal trap space: {spur[:3]}", ctx=ctx)
    lst = set(sd.minimal_trap_spaces())
    for i in sd.node_ids():
        if sd.node_is_minimal(i) != (i in lst):
            res.v(f"node_is_minimal-inconsistent:{tag}", f"node {i}", ctx=ctx)
    res.c("plans_checked")


def run_case(case):
    from .. import bb
    from ..ref import key

    net = case["net"]
    res = Res(case)
    res.hash = net_hash(net)
    ref = bb.ref_of(net)
    W = Watch(res, ref.n)
    mins = ref.min_traps()
    mins_k = sorted(key(m) for m in mins)
    rules = rules_text(net)
    nn = None
    for plan in case["plans"]:
        ctx = {"rules": rules, "plan": plan}
        try:
            sd = bb.make_sd(net)
            if plan[0] == "fresh":
                op = plan[1]
                tag = op[0] + ("" if op[0] not in ("block", "scc", "min") else ":" + ",".join(str(int(bool(x))) for x in op[1:] if isinstance(x, bool)))
                try:
                    r = W(lambda: _apply(sd, op, ref))
                except AssertionError as e:
                    res.v(f"assertion:{tag}", f"{op} raised AssertionError {e}", ctx=ctx)
                    continue
                if op[0] == "block" and op[3] and ref.sources():
                    res.c("block_source_shortcuts")
                if r is not True:
                    res.v(f"not-complete:{tag}", f"unrestricted {op} returned {r}", ctx=ctx)
                    continue
                judge_minimal(sd, ref, mins_k, res, tag, bb, ctx)
                if op[0] == "bfs":
                    nn = len(sd)
            elif plan[0] == "skipfinish":
                op, mode, rs = plan[1], plan[2], plan[3]
                tag = "skipfinish:" + op[0]
                try:
                    r = W(lambda: _apply(sd, op, ref))
                except AssertionError as e:
                    res.v(f"assertion:{tag}", f"{op} raised AssertionError {e}", ctx=ctx)
                    continue
                if r is False:
                    res.c("stops_at_limit")
                rr = random.Random(rs)
                if mode in ("each", "mixed"):
                    for i in list(sd.stub_ids()):
                        if mode == "each" or rr.random() < 0.5:
                            W(lambda i=i: sd.skip_to_minimal(i), nodes=len(sd))
                if mode in ("skiprem", "mixed"):
                    W(lambda: sd.skip_remaining(), nodes=len(sd))
                if list(sd.stub_ids()):
                    res.v(f"stubs-after-skipping:{tag}", f"stub nodes {list(sd.stub_ids())[:5]} remain", ctx=ctx)
                judge_minimal(sd, ref, mins_k, res, tag + ":" + mode, bb, ctx)
                res.c("skip_completions")
            else:
                pre, fin = plan[1], plan[2]
                tag = "prefix:" + fin[0]
                for op in pre:
                    W(lambda op=op: history.apply_op(sd, op, ref), nodes=len(sd))
                try:
                    r = W(lambda: _apply(sd, fin, ref), nodes=len(sd))
                except AssertionError as e:
                    res.v(f"assertion:{tag}", f"{fin} after prefix raised AssertionError {e}", ctx=ctx)
                    continue
                limited = fin[0] in ("bfs", "dfs") and fin[2] is not None
                if r is not True:
                    if not limited:
                        res.v(f"not-complete:{tag}", f"unrestricted {fin} after prefix returned {r}", ctx=ctx)
                    continue
                if limited:
                    tag += ":level-limited"
                    res.c("level_limited_completions")
                judge_minimal(sd, ref, mins_k, res, tag, bb, ctx)
                res.c("prefix_resumes")
        except bb.Aborted as e:
            res.inconclusive = f"aborted: {e}"
            res.c("aborted_plans")
    res.nontrivial = len(mins) >= 2 or (nn or 0) >= 4
    res.m("minimal_trap_spaces", len(mins))
    if res.nontrivial and case.get("rs", 0) % 50 == 0:
        res.sample = {"rules": rules, "minimal_trap_spaces": [ref.named(m) for m in mins][:6], "plans": len(case["plans"])}
    return res.out()
