"""C06 — every intervention reported successful really forces the network into the target."""
from __future__ import annotations

import random

from .. import gen, history
from .common import Res, Watch, net_hash, rules_text

LEVEL = "exploration"
RULE = (
    "succession_control on fresh diagrams and on diagrams already partially expanded, block/SCC-shortcut or completed "
    "with skip nodes; targets: minimal trap spaces, node spaces, random partial assignments, single states; both "
    "strategies; max_drivers {None,0,1,2}; forbidden sets; skip_feedforward_successions on/off. For every intervention "
    "flagged successful: the succession must be a chain of nested trap spaces from the percolated whole space; for "
    "every step and every listed override the reference LDOI (override + values fixed by earlier steps) must contain "
    "the motif AND (deciding, purely semantic) in the explicitly simulated overridden network every attractor "
    "reachable from the previous trap space must have the motif's values; the final space must be consistent with "
    "the target and every minimal trap space inside it inside the target. non-trivial = >= 1 override simulated; "
    "distinct by rules+query"
)
ASSUMPTIONS = ["reference model vf/ref.py (explicit overridden transition graph, n <= 7)"]
DEADLINE = 300
PREFIX_KINDS = ["bfs", "dfs", "min", "min_skip", "attr", "target", "target", "control", "control", "block", "scc", "skip", "skiprem", "succ"]


def cases(tier, seed):
    rng = random.Random(f"C06/{seed}")
    count = 25000 if tier == "quick" else 250000
    cl = [("rand", 4), ("gadget", 5), ("inputs", 3), ("rand-wide", 1), ("dense-neg", 1)]
    nets = gen.corpus() + [gen.draw(rng, cl, 6 if rng.random() < 0.6 else 7) for _ in range(count)]
    out = []
    for n in nets:
        if len(n["names"]) > 7:
            continue
        strat = rng.choice(["internal", "all"]) if len(n["names"]) <= 6 else "internal"
        prior = rng.choice(["fresh", "fresh", "prefix", "prefix", "skipped"])
        out.append(
            {
                "net": n,
                "cls": n["cls"],
                "target": history.gen_target(rng, control=True),
                "strategy": strat,
                "max_drivers": rng.choice([None, None, None, 0, 1, 2]),
                "forbidden": rng.randrange(1 << 16) if rng.random() < 0.25 else None,
                "skipff": rng.random() < 0.3,
                "prior": prior,
                "prefix": history.gen_history(rng, PREFIX_KINDS, rng.randint(1, 4)) if prior != "fresh" else [],
                "rs": rng.randrange(1 << 30),
            }
        )
    return out


def gate(agg):
    c = agg["cnt"]
    need = ["interventions", "steps", "overrides_simulated", "multi_step", "temporary_overrides_outside_motif", "prior:fresh", "prior:prefix", "prior:skipped", "skipff", "strategy:all", "strategy:internal"]
    return [f"monitor counter {k} is zero" for k in need if c.get(k, 0) == 0]


def run_case(case):
    from .. import bb
    from ..ref import issub, consistent
    from . import ctl
    from biobalm.control import succession_control

    net = case["net"]
    res = Res(case)
    ref = bb.ref_of(net)
    rules = rules_text(net)
    W = Watch(res, ref.n)
    sd = bb.make_sd(net)
    tgt_named = history.resolve_target(ref, sd, case["target"])
    tgt = ref.sp(tgt_named)
    res.hash = net_hash(net) + str(sorted(tgt_named.items())) + case["strategy"] + str(case["max_drivers"]) + str(case["forbidden"]) + case["prior"] + str(case["skipff"])
    forb = None
    if case["forbidden"] is not None:
        rr = random.Random(case["forbidden"])
        forb = set(rr.sample(ref.names, rr.randint(0, max(1, ref.n // 2))))
    ctx = {"rules": rules, "target": tgt_named, "strategy": case["strategy"], "max_drivers": case["max_drivers"], "forbidden": sorted(forb) if forb else None, "prior": case["prior"], "prefix": case["prefix"], "skipff": case["skipff"]}
    try:
        for op in case["prefix"]:
            holder = {}

            def f(op=op):
                holder["sd"], holder["r"] = history.apply_op(sd, op, ref)

            W(f, nodes=len(sd))
            sd = holder["sd"]
        if case["prior"] == "skipped":
            W(lambda: sd.skip_remaining(), nodes=len(sd))
        ivs = W(lambda: succession_control(sd, tgt_named, strategy=case["strategy"], max_drivers_per_succession_node=case["max_drivers"], forbidden_drivers=forb, successful_only=True, skip_feedforward_successions=case["skipff"]), nodes=len(sd))
    except bb.Aborted as e:
        res.inconclusive = f"aborted: {e}"
        return res.out()
    res.c(f"prior:{case['prior']}")
    res.c(f"strategy:{case['strategy']}")
    if case["skipff"]:
        res.c("skipff")
    mins = ref.min_traps()
    root = ref.percolate({})
    sims = 0
    for iv in ivs:
        res.c("interventions")
        if not iv.successful:
            res.v("unsuccessful-in-successful_only", "successful_only=True returned an unsuccessful intervention", ctx=ctx)
            continue
        S = dict(root)
        A = {}
        if len(iv.succession) >= 2:
            res.c("multi_step")
        ictx = dict(ctx, succession=iv.succession, control=iv.control)
        for step, (motif, ctrl) in enumerate(zip(iv.succession, iv.control)):
            m = ref.sp(motif)
            res.c("steps")
            if not consistent(S, m):
                res.v("chain-motif-contradicts-previous-space", f"step {step}: motif {motif} contradicts the previous trap space {ref.named(S)}", ctx=ictx)
                break
            nS = dict(S)
            nS.update(m)
            nS = ref.percolate(nS)
            if not ref.is_trap(nS) or not issub(nS, S):
                res.v("chain-not-nested-trap-spaces", f"step {step}: {ref.named(nS)} is not a trap space inside {ref.named(S)}", ctx=ictx)
            if not ctrl:
                res.v("successful-without-override", f"step {step} has no override but the intervention is flagged successful", ctx=ictx)
            for d in ctrl:
                dd = ref.sp(d)
                if forb and set(d) & forb:
                    res.v("forbidden-driver-reported", f"override {d}", ctx=ictx)
                merged = dict(dd)
                merged.update(A)
                l = ref.percolate(merged)
                ok_static = all(l.get(a) == b for a, b in m.items())
                ok_dyn = ctl.override_forces_motif(ref, S, dd, m)
                sims += 1
                res.c("overrides_simulated")
                if any(k not in m for k in dd):
                    res.c("temporary_overrides_outside_motif")
                if not ok_dyn:
                    res.v(
                        f"override-does-not-force-motif:{case['strategy']}",
                        f"step {step}: with override {d} applied in {ref.named(S)} an attractor violating motif {motif} stays reachable (LDOI test {'passes' if ok_static else 'fails'})",
                        ctx=ictx,
                    )
                elif not ok_static:
                    res.v(f"override-ldoi-lacks-motif:{case['strategy']}", f"step {step}: LDOI of {d} with earlier values {ref.named(A)} does not contain motif {motif}", ctx=ictx)
            nA = dict(m)
            nA.update(A)
            A = ref.percolate(nA)
            S = nS
        else:
            if not consistent(S, tgt):
                res.v("final-space-inconsistent-with-target", f"final space {ref.named(S)} vs target {tgt_named}", ctx=ictx)
            for mt in mins:
                if issub(mt, S) and not issub(mt, tgt):
                    res.v("final-space-has-minimal-trap-outside-target", f"final space {ref.named(S)} contains minimal trap space {ref.named(mt)} outside target {tgt_named}", ctx=ictx)
                    break
    res.nontrivial = sims >= 1
    if res.nontrivial and case["rs"] % 60 == 0:
        res.sample = dict(ctx, interventions=len(ivs))
    return res.out()
