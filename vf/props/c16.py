"""C16 — serialization and memory reclamation are transparent."""
from __future__ import annotations

import hashlib
import json
import random

from .. import gen, history
from .common import Res, Watch, net_hash, rules_text

LEVEL = "exploration"
RULE = (
    "twin runs of one random history over the full API (all strategies, skipping, attractor queries, control, "
    "summary): the untouched twin vs a twin that gets pickle.loads(pickle.dumps(sd)) and/or reclaim_node_data() "
    "inserted at a cut point (3 random cut points per history in quick, every cut point in thorough). After the cut "
    "and after every later call the return values and the full dump with node ids (spaces, depths, flags, edges, "
    "motif lists in order, seeds and sets literally; candidates literally after pickle, semantically after reclaim) "
    "must be identical. non-trivial = >= 2 calls after the cut of which one computes attractors or control; distinct "
    "by rules+history+cut"
)
ASSUMPTIONS = ["determinism within one process with a fixed hash seed (C19's subject)", "reference model vf/ref.py for the semantic candidate comparison"]
DEADLINE = 300

WEIGHTS = {
    "bfs": 2, "dfs": 2, "min": 2, "min_skip": 2, "attr": 2, "target": 1, "block_plain": 1, "block": 2, "scc": 2,
    "succ": 2, "skip": 2, "skiprem": 2, "cand": 4, "seeds": 5, "sets": 3, "xseeds": 2, "xcand": 1, "xsets": 1,
    "build": 1, "control": 2, "summary": 1,
}


def cases(tier, seed):
    rng = random.Random(f"C16/{seed}")
    nmax, count = (7, 2400) if tier == "quick" else (8, 8000)
    cl = [("gadget", 5), ("inputs", 3), ("rand", 3), ("dense-neg", 1), ("overlap-maa", 0.3)]
    nets = gen.corpus() + [gen.draw(rng, cl, nmax) for _ in range(count)] + [gen.model_net(f) for f in gen.models_up_to(10 if tier == "quick" else 16)]
    kinds = list(WEIGHTS)
    w = [WEIGHTS[k] for k in kinds]
    out = []
    for n in nets:
        h = history.gen_history(rng, kinds, rng.randint(3, 9), w)
        cuts = list(range(0, len(h) + 1))
        if tier == "quick":
            cuts = sorted(rng.sample(cuts, min(3, len(cuts))))
        cfg = None
        if rng.random() < 0.3:
            cfg = rng.choice([
                {"max_motifs_per_node": rng.choice([2, 3, 4])},
                {"attractor_candidates_limit": rng.choice([1, 2, 3]), "retained_set_optimization_threshold": rng.choice([0, 1, 2])},
                {"minimum_simulation_budget": 0},
                {"retained_set_optimization_threshold": 0, "nfvs_size_threshold": 0},
            ])
        for k in cuts:
            out.append({"net": n, "cls": n["cls"], "history": h, "cut": k, "insert": rng.choice(["pickle", "pickle", "reclaim", "both", "pickle2"]), "config": cfg, "rs": rng.randrange(1 << 30)})
    return out


def gate(agg):
    c = agg["cnt"]
    need = ["twin_runs", "dumps_compared", "returns_compared", "insert:pickle", "insert:reclaim", "insert:both", "pickled_with_cached_nets", "pickled_with_sets", "pickled_with_candidates_only", "post_cut_attractor_calls", "post_cut_control_calls", "non_default_config_runs"]
    return [f"monitor counter {k} is zero" for k in need if c.get(k, 0) == 0]


def run_case(case):
    import pickle

    from .. import bb
    from .attrs import judge_candidates

    net = case["net"]
    res = Res(case)
    res.hash = hashlib.sha1((net_hash(net) + json.dumps(case["history"]) + str(case["cut"]) + case["insert"]).encode()).hexdigest()[:16]
    big = len(net["names"]) > 9
    ref = bb.ref_of(net) if not big else None
    rules = rules_text(net) if not big else net["cls"]
    if big:
        from .c04 import NameRef

        nref = NameRef(net["names"])

        class _R:  # minimal stand-in for target resolution on models
            pass

    W = Watch(res, min(len(net["names"]), 14))
    ins = case["insert"]
    hist = case["history"]
    if big:
        hist = [op for op in hist if op[0] not in ("target", "control")]
    try:
        sd1 = bb.make_sd(net, case.get("config"))
        sd2 = bb.make_sd(net, case.get("config"))
        if case.get("config"):
            res.c("non_default_config_runs")
        done = []
        post = 0
        post_attr = False
        reclaimed = False
        for k in range(len(hist) + 1):
            if k == case["cut"]:
                nd = [sd2.node_data(i) for i in sd2.node_ids()]
                if any(d["percolated_petri_net"] is not None or d["percolated_network"] is not None for d in nd):
                    res.c("pickled_with_cached_nets")
                if any(d["attractor_sets"] for d in nd):
                    res.c("pickled_with_sets")
                if any(d["attractor_candidates"] is not None and d["attractor_seeds"] is None for d in nd):
                    res.c("pickled_with_candidates_only")
                ctx = {"rules": rules, "history": hist, "cut": case["cut"], "insert": ins}
                try:
                    if ins in ("pickle", "both", "pickle2"):
                        sd2 = pickle.loads(pickle.dumps(sd2))
                    if ins == "pickle2":
                        sd2 = pickle.loads(pickle.dumps(sd2, protocol=2))
                    if ins in ("reclaim", "both"):
                        sd2.reclaim_node_data()
                        reclaimed = True
                except Exception as e:
                    res.v(f"insert-raised:{ins}:{type(e).__name__}", f"{ins} at cut {case['cut']} raised {type(e).__name__}: {e}", ctx=ctx)
                    return res.out()
                res.c(f"insert:{'pickle' if ins.startswith('pickle') else ins}")
                _compare(sd1, sd2, res, bb, ctx, reclaimed, "at-cut", ref)
            if k == len(hist):
                break
            op = hist[k]
            h1, h2 = {}, {}

            def f1(op=op):
                h1["sd"], h1["r"] = history.apply_op(sd1, op, ref if ref is not None else nref)

            def f2(op=op):
                h2["sd"], h2["r"] = history.apply_op(sd2, op, ref if ref is not None else nref)

            W(f1, nodes=len(sd1))
            W(f2, nodes=len(sd2))
            sd1, sd2 = h1["sd"], h2["sd"]
            done.append(op[0])
            if k >= case["cut"]:
                post += 1
                ctx = {"rules": rules, "history": hist, "cut": case["cut"], "insert": ins, "after_call": k}
                if op[0] in ("cand", "seeds", "sets", "xseeds", "xcand", "xsets", "build"):
                    post_attr = True
                    res.c("post_cut_attractor_calls")
                if op[0] == "control":
                    post_attr = True
                    res.c("post_cut_control_calls")
                r1, r2 = h1["r"], h2["r"]
                res.c("returns_compared")
                if reclaimed and op[0] in ("cand", "xcand"):
                    # after reclaim the candidates may legitimately be the seeds: compare semantically
                    if ("exc" in r1) != ("exc" in r2):
                        res.v(f"return-differs:{op[0]}:reclaim", f"{op}: one twin raised, the other did not: {r1} vs {r2}", ctx=ctx)
                    elif ref is not None and "ret" in r2 and op[0] == "cand":
                        i = op[1] % len(sd2)
                        if not sd2.node_data(i)["skipped"]:
                            judge_candidates(ref, sd2, i, [dict(x) for x in r2["ret"]], res, "after-reclaim", bb, ctx=ctx)
                elif r1 != r2:
                    res.v(f"return-differs:{op[0]}:{ins}", f"{op}: untouched twin returned {str(r1)[:150]}, {ins} twin {str(r2)[:150]}", ctx=ctx)
                _compare(sd1, sd2, res, bb, ctx, reclaimed, op[0], ref)
            if res.viol:
                break
        res.c("twin_runs")
        res.nontrivial = post >= 2 and post_attr
    except bb.Aborted as e:
        res.inconclusive = f"aborted: {e}"
    if res.nontrivial and case["rs"] % 80 == 0:
        res.sample = {"rules": rules, "history": hist, "cut": case["cut"], "insert": ins}
    return res.out()


def _compare(sd1, sd2, res, bb, ctx, reclaimed, tag, ref):
    d1 = bb.dump_ids(sd1)
    d2 = bb.dump_ids(sd2)
    res.c("dumps_compared")
    if len(d1) != len(d2):
        res.v(f"dump-differs:node-count:{tag}", f"{len(d1)} vs {len(d2)} nodes", ctx=ctx)
        return
    for a, b in zip(d1, d2):
        for fld in a:
            if fld == "cand" and reclaimed:
                continue
            if a[fld] != b[fld]:
                res.v(f"dump-differs:{fld}:{tag}", f"node {a['id']}: {fld} = {str(a[fld])[:160]} (untouched) vs {str(b[fld])[:160]}", ctx=ctx)
                return
    if dict(sd1.config) != dict(sd2.config):
        res.v(f"dump-differs:config:{tag}", f"configuration differs: {dict(sd1.config)} vs {dict(sd2.config)}", ctx=ctx)
    if sd1.nfvs != sd2.nfvs:
        res.v(f"dump-differs:nfvs:{tag}", "sd.nfvs differs", ctx=ctx)
    if len(sd1) != len(sd2) or sd1.depth() != sd2.depth():
        res.v(f"dump-differs:len-depth:{tag}", "len()/depth() differ", ctx=ctx)
