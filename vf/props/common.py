"""Shared helpers for the per-property modules (driver side: no biobalm import here)."""
from __future__ import annotations

import hashlib
import json
import random

from .. import gen
from .. import expr as X


class Res:
    """Result accumulator of one case."""

    def __init__(self, case):
        self.case = case
        self.viol = []
        self.cnt = {}
        self.max = {}
        self.nontrivial = False
        self.inconclusive = None
        self.sample = None
        self.hash = None
        self.nt_hashes = None
        self.evals = 1

    def v(self, key, msg, **detail):
        if len(self.viol) < 12:
            self.viol.append({"key": key, "msg": msg, "detail": detail})

    def c(self, name, k=1):
        self.cnt[name] = self.cnt.get(name, 0) + k

    def m(self, name, val):
        if name not in self.max or val > self.max[name]:
            self.max[name] = val

    def out(self):
        d = {
            "viol": self.viol,
            "cnt": self.cnt,
            "max": self.max,
            "nontrivial": self.nontrivial,
            "inconclusive": self.inconclusive,
            "sample": self.sample,
            "hash": self.hash,
            "evals": self.evals,
        }
        if self.nt_hashes is not None:
            d["nt_hashes"] = self.nt_hashes
        return d


def net_hash(net) -> str:
    h = hashlib.sha1()
    h.update(json.dumps([net["names"], [X.emit(net["exprs"][n]) for n in net["names"]]]).encode())
    return h.hexdigest()[:16]


def rules_text(net) -> str:
    return " ; ".join(f"{n}, {X.emit(net['exprs'][n])}" for n in net["names"])


def mix(rng: random.Random, count: int, classes, nmax: int):
    return [gen.draw(rng, classes, nmax) for _ in range(count)]


def std_cases(seed: int, salt: str, count: int, classes, nmax: int, extra=None, corpus=True, exh2=False, models_nmax=0):
    """corpus first, then (optionally) all 256 two-variable networks, repository models up to
    a size, then `count` generated networks."""
    rng = random.Random(f"{salt}/{seed}")
    nets = []
    if corpus:
        nets += gen.corpus()
    if exh2:
        nets += [gen.exh2(i) for i in range(256)]
    if models_nmax:
        nets += [gen.model_net(f) for f in gen.models_up_to(models_nmax)]
    nets += mix(rng, count, classes, nmax)
    out = []
    for i, n in enumerate(nets):
        c = {"net": n, "cls": n["cls"], "rs": rng.randrange(1 << 30)}
        if extra:
            c.update(extra)
        out.append(c)
    return out


class Watch:
    """Run library calls under the work meter; an abort marks the case inconclusive for
    every property except C13 (which owns that verdict)."""

    def __init__(self, res: Res, ref_n: int, fingerprints=True, scale=0.25):
        from .. import bb

        self.bb = bb
        self.res = res
        self.n = ref_n
        self.fp = fingerprints
        self.scale = scale

    def __call__(self, fn, nodes=1):
        bb = self.bb
        # properties other than C13: a slow call is cut after 45 s (inconclusive case, never a verdict)
        r, used = bb.metered(fn, int(bb.budget_for(self.n, nodes) * self.scale), self.fp, wall_limit=45.0)
        self.res.m("back_edges_per_call", used)
        return r
