"""C19 — results are reproducible (same process, other processes, any hash seed, any history of
unrelated calls)."""
from __future__ import annotations

import hashlib
import json
import os
import random
import subprocess
import sys

from .. import gen
from .common import Res, net_hash, rules_text

LEVEL = "exploration"
RULE = (
    "groups of 5 networks (gadget / inputs / overlap-maa / repository models <= 16 variables); for each network and "
    "each of 8 strategies (build, BFS, DFS, block, SCC, minimal-space with and without skip_ignored, attractor-seed) "
    "followed by seeds on all expanded nodes, the full dump with node ids (spaces, depths, flags, successor lists, "
    "edge motif and motif-list ORDER, candidates, seeds, sets), summary() and repr() of the interventions of both "
    "control strategies are computed (a) twice in one process, (b) in fresh processes with PYTHONHASHSEED in "
    "{0,1,2,3,4,5,31337,random}, (c) after a pollution prefix of unrelated diagrams (other networks, debug configuration, "
    "symbolic fallback, limit errors) in the same process, and compared byte for byte. non-trivial = network whose "
    "BFS diagram has >= 4 nodes; distinct by rules; evaluations = dumps compared"
)
ASSUMPTIONS = ["lists whose order the docstrings leave open (successor lists, per-node seed lists) are sorted before comparison; everything else is compared literally"]
DEADLINE = 900
STRATS = ["build", "bfs", "dfs", "block", "scc", "min", "min_skip", "attr"]
HASHSEEDS = ["0", "1", "2", "3", "4", "5", "31337", "random"]


def cases(tier, seed):
    rng = random.Random(f"C19/{seed}")
    groups = 45 if tier == "quick" else 300
    cl = [("gadget", 5), ("inputs", 3), ("overlap-maa", 1), ("rand", 2), ("dense-neg", 1)]
    models = gen.models_up_to(12 if tier == "quick" else 16)
    out = []
    corpus = gen.corpus()
    for g in range(groups):
        nets = [gen.draw(rng, cl, 8) for _ in range(4)]
        nets.append(gen.model_net(rng.choice(models)))
        if g < len(corpus) // 3 + 1:
            nets += corpus[g * 3 : g * 3 + 3]
        out.append({"nets": nets, "cls": "group", "rs": rng.randrange(1 << 30)})
    return out


def gate(agg):
    c = agg["cnt"]
    need = ["process_pairs", "distinct_hash_seeds", "dumps_compared", "bytes_compared", "in_process_repeats", "polluted_runs", "intervention_reprs_compared"]
    return [f"monitor counter {k} is zero" for k in need if c.get(k, 0) == 0]


# ------------------------------------------------------------------------------- child process
def _compute(net, bb):
    from biobalm.control import succession_control

    out = {}
    for strat in STRATS:
        try:
            sd = bb.make_sd(net)
            if strat == "build":
                sd.build()
            elif strat == "bfs":
                sd.expand_bfs(size_limit=400)
            elif strat == "dfs":
                sd.expand_dfs(size_limit=400)
            elif strat == "block":
                sd.expand_block(size_limit=400)
            elif strat == "scc":
                sd.expand_scc()
            elif strat == "min":
                sd.expand_minimal_spaces(size_limit=400)
            elif strat == "min_skip":
                sd.expand_minimal_spaces(size_limit=400, skip_ignored=True)
            else:
                sd.expand_attractor_seeds(size_limit=400)
            for i in list(sd.expanded_ids()):
                sd.node_attractor_seeds(i, compute=True)
            d = bb.dump_ids(sd)
            for rec in d:
                rec["succ"] = sorted(rec["succ"], key=lambda x: x[0])
                if rec["seeds"] is not None:
                    rec["seeds"] = sorted(rec["seeds"])
            out[strat] = json.dumps([d, sd.summary()], sort_keys=True)
        except Exception as e:
            out[strat] = f"EXC {type(e).__name__}: {e}"
    # control
    try:
        sd = bb.make_sd(net)
        sd.expand_minimal_spaces(size_limit=200)
        mins = sd.minimal_trap_spaces()
        n = len(net["names"])
        for mi, m in enumerate(mins[:3]):
            tgt = dict(sd.node_data(m)["space"])
            if not tgt:
                continue
            for st in ("internal", "all"):
                if st == "all" and n > 7:
                    continue
                sd2 = bb.make_sd(net)
                iv = succession_control(sd2, tgt, strategy=st, max_drivers_per_succession_node=None if n <= 6 else 2, successful_only=False)
                out[f"ctl:{st}:{mi}"] = repr(iv) + "||" + "|".join(str(i) for i in iv)
    except Exception as e:
        out["ctl"] = f"EXC {type(e).__name__}: {e}"
    return out


def _pollute(bb, rng):
    """Unrelated library calls: other networks, debug configuration, fallback, limit errors."""
    from biobalm._sd_attractors.attractor_symbolic import symbolic_attractor_fallback

    for _ in range(3):
        n = gen.draw(rng, [("gadget", 1), ("rand", 1), ("dense-neg", 1)], 6)
        try:
            sd = bb.make_sd(n, {"debug": rng.random() < 0.5, "attractor_candidates_limit": rng.choice([1, 100000]), "max_motifs_per_node": rng.choice([2, 100000])})
            sd.expand_bfs(size_limit=20)
            for i in list(sd.node_ids())[:4]:
                try:
                    sd.node_attractor_seeds(i, compute=True, symbolic_fallback=rng.random() < 0.5)
                except RuntimeError:
                    pass
            symbolic_attractor_fallback(sd, 0)
            sd.skip_remaining()
        except RuntimeError:
            pass


def child_main():
    sys.path.insert(0, os.path.dirname(os.path.dirname(os.path.dirname(os.path.abspath(__file__)))))
    job = json.loads(sys.stdin.read())
    out_fd = os.fdopen(os.dup(1), "w")
    devnull = os.open(os.devnull, os.O_WRONLY)
    os.dup2(devnull, 1)
    os.dup2(devnull, 2)
    sys.stdout = open(os.devnull, "w")
    from vf import bb

    rng = random.Random(job["rs"])
    res = {"keys": {}, "inproc_mismatch": []}
    for ni, net in enumerate(job["nets"]):
        if job.get("pollute"):
            _pollute(bb, rng)
        a = _compute(net, bb)
        if job.get("repeat"):
            b = _compute(net, bb)
            for k in a:
                if a[k] != b.get(k):
                    res["inproc_mismatch"].append(f"{ni}:{k}")
        for k, v in a.items():
            res["keys"][f"{ni}:{k}"] = v
    out_fd.write(json.dumps(res))
    out_fd.flush()


def _spawn(job, hashseed):
    from ..harness import worker_env, PY, ROOT

    env = worker_env({"PYTHONHASHSEED": hashseed})
    if hashseed == "random":
        env["PYTHONHASHSEED"] = "random"
    return subprocess.Popen([PY, "-m", "vf.props.c19", "--child"], stdin=subprocess.PIPE, stdout=subprocess.PIPE, stderr=subprocess.DEVNULL, env=env, cwd=ROOT, text=True)


def run_case(case):
    res = Res(case)
    nets = case["nets"]
    res.hash = hashlib.sha1("".join(net_hash(n) for n in nets).encode()).hexdigest()[:16]
    res.evals = 0
    jobs = [(hs, {"nets": nets, "rs": case["rs"], "repeat": hs == "0"}) for hs in HASHSEEDS]
    jobs.append(("0", {"nets": nets, "rs": case["rs"], "pollute": True}))
    jobs.append(("7", {"nets": nets, "rs": case["rs"] + 1, "pollute": True}))
    procs = []
    for hs, job in jobs:
        p = _spawn(job, hs)
        p.stdin.write(json.dumps(job))
        p.stdin.close()
        procs.append((hs, job, p))
    outs = []
    for hs, job, p in procs:
        try:
            txt = p.stdout.read()
            p.wait(600)
            outs.append((hs, job, json.loads(txt)))
        except Exception as e:
            res.inconclusive = f"child-failed: hashseed {hs}: {e}"
            return res.out()
    base_hs, base_job, base = outs[0]
    if base["inproc_mismatch"]:
        for k in base["inproc_mismatch"][:3]:
            ni, key = k.split(":", 1)
            res.v(f"differs-in-same-process:{key.split(':')[0]}", f"network #{ni} computed twice in one process gives different {key}", rules=rules_text(nets[int(ni)]))
    res.c("in_process_repeats", len(base["keys"]))
    seeds_seen = set()
    nt_hashes = set()
    for hs, job, o in outs[1:]:
        res.c("process_pairs")
        seeds_seen.add(hs)
        if job.get("pollute"):
            res.c("polluted_runs")
        for k, v in base["keys"].items():
            w = o["keys"].get(k)
            res.evals += 1
            res.c("dumps_compared")
            res.c("bytes_compared", len(v))
            if k.split(":")[1] == "ctl":
                res.c("intervention_reprs_compared")
            if v != w:
                ni, key = k.split(":", 1)
                kind = "after-pollution" if job.get("pollute") else f"across-processes"
                what = _first_diff(v, w)
                res.v(
                    f"differs-{kind}:{key.split(':')[0]}",
                    f"network #{ni} {key}: PYTHONHASHSEED={base_hs} vs {hs}{' (after unrelated calls)' if job.get('pollute') else ''}: {what}",
                    rules=rules_text(nets[int(ni)]),
                    hashseeds=[base_hs, hs],
                )
    res.m("distinct_hash_seeds_per_case", len(seeds_seen | {base_hs}))
    res.c("distinct_hash_seeds", 1)
    for ni, n in enumerate(nets):
        b = base["keys"].get(f"{ni}:bfs", "")
        if b.count('"id"') >= 4:
            nt_hashes.add(net_hash(n))
    res.nt_hashes = sorted(nt_hashes)
    res.nontrivial = bool(nt_hashes)
    if case["rs"] % 5 == 0:
        res.sample = {"networks": [rules_text(n)[:200] for n in nets[:2]], "keys_per_network": len(STRATS) + 2, "processes": len(outs)}
    return res.out()


def _first_diff(a, b):
    if b is None:
        return "missing in the second run"
    for i, (x, y) in enumerate(zip(a, b)):
        if x != y:
            return f"first difference at byte {i}: ...{a[max(0, i - 60):i + 60]!r} vs ...{b[max(0, i - 60):i + 60]!r}"
    return f"lengths differ: {len(a)} vs {len(b)}"


if __name__ == "__main__":
    if "--child" in sys.argv:
        child_main()
