"""C04 — lazily built diagrams are always a faithful part of the full diagram."""
from __future__ import annotations

import hashlib
import json
import random

from .. import gen, history
from .common import Res, Watch, net_hash, rules_text

LEVEL = "exploration"
RULE = (
    "random histories (3-12 calls) of plain expansion calls (BFS, DFS, minimal-space without skipping, "
    "attractor-seed, target-directed, block without source shortcuts, single-node expansion) with arbitrary "
    "start nodes and size/level/stack limits; after EVERY call every node is compared with the reference "
    "succession diagram (explicit enumeration; for repository models > 10 variables a fresh BFS diagram is "
    "the differential reference); finally expand_bfs() and comparison with a fresh diagram (by space, motifs, "
    "is_isomorphic both ways); non-trivial = reference diagram >= 3 nodes and >= 1 call stopped early; "
    "distinct by hash of rules+history"
)
ASSUMPTIONS = ["reference model vf/ref.py; for models > 10 variables trust is placed in a fresh expand_bfs() diagram (C02)"]
DEADLINE = 300


def cases(tier, seed):
    rng = random.Random(f"C04/{seed}")
    nmax, count = (7, 20000) if tier == "quick" else (9, 120000)
    cl = [("rand", 4), ("gadget", 4), ("inputs", 2), ("dense-neg", 1), ("rand-wide", 1), ("overlap-maa", 0.3)]
    nets = gen.corpus() + [gen.draw(rng, cl, nmax) for _ in range(count)]
    out = []
    w = [3, 3, 3, 2, 2, 2, 3]
    wq = w + [2, 1, 1]
    for n in nets:
        if rng.random() < 0.35:
            # interleave pure queries that cache percolated nets / attractor data on stubs (the structure must not care)
            h = history.gen_history(rng, history.PLAIN_Q, rng.randint(4, 12), wq)
        else:
            h = history.gen_history(rng, history.PLAIN, rng.randint(3, 12), w)
        c = {"net": n, "cls": n["cls"], "history": h, "rs": rng.randrange(1 << 30)}
        if rng.random() < 0.15:
            # a tight resource limit: node expansion may raise RuntimeError, the node must then stay unexpanded
            c["config"] = {"max_motifs_per_node": rng.choice([2, 3, 4])}
        out.append(c)
    for f in gen.models_up_to(10 if tier == "quick" else 20):
        for rep in range(2 if tier == "quick" else 6):
            out.append({"net": gen.model_net(f), "cls": "model", "history": history.gen_history(rng, history.PLAIN, rng.randint(3, 8), w), "rs": rng.randrange(1 << 30), "diffref": True})
    return out


def gate(agg):
    c = agg["cnt"]
    return [f"monitor counter {k} is zero" for k in ("calls", "node_comparisons", "early_stops", "final_compared", "rediscovered_nodes", "expanded_write_events") if c.get(k, 0) == 0]


class NameRef:
    """Name <-> index mapping only (used when the explicit model is too large)."""

    def __init__(self, names):
        self.names = list(names)
        self.n = len(names)
        self.idx = {n: i for i, n in enumerate(names)}

    def sp(self, named):
        return {self.idx[k]: int(v) for k, v in named.items()}

    def named(self, space):
        return {self.names[i]: v for i, v in sorted(space.items())}


def rsd_from_sd(sd, ref, bb):
    from ..ref import key

    nodes, edges = {}, {}
    for i in sd.node_ids():
        nodes[bb.kspace(ref, sd.node_data(i)["space"])] = ref.sp(sd.node_data(i)["space"])
    for i in sd.node_ids():
        for j in sd.dag.successors(i):
            edges[(bb.kspace(ref, sd.node_data(i)["space"]), bb.kspace(ref, sd.node_data(j)["space"]))] = [ref.sp(m) for m in sd.edge_all_stable_motifs(i, j)]
    mins = [ref.sp(sd.node_data(i)["space"]) for i in sd.minimal_trap_spaces()]
    return bb.kspace(ref, sd.node_data(0)["space"]), nodes, edges, mins


def run_case(case):
    from .. import bb
    from ..instrument import TRACE, trace_sd
    from .sdcheck import check_partial, ref_children_map, by_space_dump

    net = case["net"]
    res = Res(case)
    res.hash = hashlib.sha1((net_hash(net) + json.dumps(case["history"])).encode()).hexdigest()[:16]
    ctx = rules_text(net) if len(net["names"]) <= 12 else net["cls"]
    diff = case.get("diffref", False) and len(net["names"]) > 10
    try:
        if diff:
            ref = NameRef(net["names"])
            W = Watch(res, min(len(net["names"]), 16))
            full = bb.make_sd(net)
            if not W(lambda: full.expand_bfs(size_limit=500)):
                res.inconclusive = "model-too-large: full diagram > 500 nodes"
                return res.out()
            rsd = rsd_from_sd(full, ref, bb)
            history_ref = None
        else:
            ref = bb.ref_of(net)
            W = Watch(res, ref.n)
            rsd = ref.succession_diagram()
            history_ref = ref
    except bb.Aborted as e:
        res.inconclusive = f"aborted: {e}"
        return res.out()
    rch = ref_children_map(rsd)
    sd = bb.make_sd(net, case.get("config"))
    if case.get("config"):
        res.c("tight_motif_limit_cases")
    trace_sd(sd)
    TRACE.reset()
    TRACE.on = True
    done = []
    early = 0
    try:
        for op in case["history"]:
            if op[0] == "target" and history_ref is None:
                # resolve targets without the explicit model: random partial assignment
                r = random.Random(op[1][1])
                vs = r.sample(ref.names, max(1, min(op[1][2], ref.n)))
                tgt = {v: r.randint(0, 1) for v in vs}
                before = len(sd)
                ret = W(lambda: sd.expand_to_target(tgt, None if op[2] is None else max(0, len(sd) + op[2][1])), nodes=len(sd))
                r_ = {"ret": ret}
            else:
                before = len(sd)
                TRACE.call_index += 1
                holder = {}

                def f(op=op):
                    s2, r = history.apply_op(sd, op, history_ref or ref)
                    holder["r"] = r
                    return r

                W(f, nodes=len(sd))
                r_ = holder["r"]
            done.append([op[0], r_.get("ret") if isinstance(r_.get("ret"), (bool, type(None))) else "..", r_.get("exc")])
            res.c("calls")
            if r_.get("ret") is False:
                early += 1
                res.c("early_stops")
            if r_.get("exc"):
                res.c(f"exc:{r_['exc']}")
                if r_["exc"] in ("AssertionError", "TypeError", "AttributeError", "IndexError"):
                    res.v(f"crash:{op[0]}:{r_['exc']}", f"{op} raised {r_['exc']}: {r_.get('msg')}", ctx=ctx, history=done)
            check_partial(sd, ref, rsd, res, op[0], bb, ctx={"rules": ctx, "history": done}, rch=rch)
            if res.viol:
                break
        TRACE.on = False
        ew = [e for e in TRACE.events if e[3] == "expanded" and e[5] is True]
        res.c("expanded_write_events", len(ew))
        # nodes discovered again through another parent
        res.c("rediscovered_nodes", sum(1 for i in sd.node_ids() if sd.dag.in_degree(i) >= 2))
        if not res.viol:
            sd.config["max_motifs_per_node"] = 100_000
            ok = W(lambda: sd.expand_bfs(), nodes=len(sd))
            fresh = bb.make_sd(net)
            W(lambda: fresh.expand_bfs())
            if ok is not True:
                res.v("final-bfs-returned-false", "unrestricted expand_bfs() after the history returned False", ctx=ctx, history=done)
            if by_space_dump(sd, ref, bb) != by_space_dump(fresh, ref, bb):
                res.v("final-differs-from-fresh", "diagram after history + full expansion differs from a freshly expanded one", ctx=ctx, history=done)
            if not (sd.is_isomorphic(fresh) and fresh.is_isomorphic(sd)):
                res.v("final-not-isomorphic", "is_isomorphic(fresh) is False after full expansion", ctx=ctx, history=done)
            check_partial(sd, ref, rsd, res, "final", bb, ctx={"rules": ctx, "history": done}, rch=rch)
            res.c("final_compared")
    except bb.Aborted as e:
        TRACE.on = False
        res.inconclusive = f"aborted: {e}"
        return res.out()
    finally:
        TRACE.on = False
    res.nontrivial = len(rsd[1]) >= 3 and early >= 1
    res.m("ref_nodes", len(rsd[1]))
    if res.nontrivial and case.get("rs", 0) % 60 == 0:
        res.sample = {"rules": ctx, "history": case["history"], "returns": done}
    return res.out()
