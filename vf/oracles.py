"""Function-level oracles (C09 trap-space solver, C10 Petri net, C11 percolation) and their
installation as contracts on the real functions.  Worker side."""
from __future__ import annotations

from . import expr as X
from .ref import Ref, issub, key


# ------------------------------------------------------------------------------- helpers
def restrict_ref(ref: Ref, space: dict) -> Ref:
    """Dynamics of the variables left free by `space` (index dict) on the states of `space`."""
    free = [i for i in range(ref.n) if i not in space]
    names = [ref.names[i] for i in free]
    k = len(free)
    fixed_bits = 0
    for i, v in space.items():
        if v:
            fixed_bits |= 1 << i
    U = [0] * k
    D = [0] * k
    for t in range(1 << k):
        s = fixed_bits
        for j, i in enumerate(free):
            if (t >> j) & 1:
                s |= 1 << i
        for j, i in enumerate(free):
            if (ref.U[i] >> s) & 1:
                U[j] |= 1 << t
            if (ref.D[i] >> s) & 1:
                D[j] |= 1 << t
    return Ref(names, U, D)


def ref_of_bn(bn) -> Ref:
    """Reference dynamics of an AEON BooleanNetwork, from the *text* of its update functions
    (own parser/evaluator; variables without update function = free inputs = identity)."""
    names = [bn.get_variable_name(v) for v in bn.variables()]
    exprs = {}
    for v in bn.variables():
        nm = bn.get_variable_name(v)
        uf = bn.get_update_function(v)
        exprs[nm] = ["v", nm] if uf is None else X.parse(str(uf))
    return Ref.from_exprs(names, exprs)


# ------------------------------------------------------------------------------- C09
def expected_trappist(dyn: Ref, problem, reverse_time, ensure: dict, avoid: list, sources, limit):
    """Expected result set (as set of keys over *names*) for trappist on dynamics `dyn`.
    ensure / avoid are named spaces.  sources: list of names or None (= variables of dyn
    without any transition).  Returns (set of frozenset(items)), or None if out of scope."""
    net_vars = set(dyn.names)
    ens_in = {dyn.idx[k]: v for k, v in ensure.items() if k in net_vars}
    ens_out = {k: v for k, v in ensure.items() if k not in net_vars}
    for a in avoid:
        for k in a:
            if k not in net_vars and k not in ensure:
                return None
    trapq = dyn.is_trap_rev if reverse_time else dyn.is_trap
    T = []
    for sp in dyn.all_spaces(within=ens_in):
        full_named = dict(dyn.named(sp))
        full_named.update(ens_out)
        if any(all(full_named.get(k) == v for k, v in a.items()) for a in avoid):
            continue
        if trapq(sp):
            T.append(sp)
    if sources is None:
        src = dyn.sources()
    else:
        src = [dyn.idx[s] for s in sources if s in dyn.idx]
    if problem == "min":
        exp = Ref.minimal(T)
    elif problem == "fix":
        exp = [s for s in T if len(s) == dyn.n]
    else:
        free_exists = any(i not in ens_in for i in range(dyn.n))
        if free_exists:
            C = [s for s in T if len(s) > len(ens_in) and all(x in s for x in src if x not in ens_in)]
        else:
            C = T
        exp = Ref.maximal(C)
    out = set()
    for s in exp:
        d = dict(dyn.named(s))
        d.update(ens_out)
        out.add(frozenset(d.items()))
    return out


def judge_trappist(result, expected, limit, report, what):
    got = [frozenset(r.items()) for r in result]
    if len(set(got)) != len(got):
        report("duplicate", f"{what}: a space is returned twice")
    extra = set(got) - expected
    if extra:
        report("spurious", f"{what}: returned {sorted(map(sorted, extra))[:2]} not among the {len(expected)} expected")
    if limit is None or limit < 1:
        if limit is None and set(got) != expected and not extra:
            report("missing", f"{what}: {len(expected - set(got))} expected space(s) missing, e.g. {sorted(map(sorted, expected - set(got)))[:2]}")
    else:
        if len(got) != min(limit, len(expected)) and not extra:
            report("limit", f"{what}: {len(got)} results for limit {limit} and {len(expected)} expected")


def expected_reduced_stg(dyn: Ref, retained: dict, ensure: dict, avoid: list):
    net_vars = set(dyn.names)
    if any(k not in net_vars for k in retained) or any(k not in net_vars for k in ensure):
        return None
    for a in avoid:
        if any(k not in net_vars for k in a):
            return None
    dead = dyn.deadlocks_reduced(dyn.sp(retained)) & dyn.sub(dyn.sp(ensure))
    for a in avoid:
        dead &= ~dyn.sub(dyn.sp(a))
    return {frozenset(dyn.state_named(s).items()) for s in dyn.states(dead & dyn.ALL)}


# ------------------------------------------------------------------------------- C10
def judge_petri_net(pn, dyn: Ref, report, what):
    """Petri net `pn` must encode exactly the dynamics `dyn` over exactly dyn's variables."""
    got, problems = Ref.from_petri_net(pn)
    for p in problems:
        report("structure", f"{what}: {p}")
    if sorted(got.names) != sorted(dyn.names):
        report("variables", f"{what}: net has variables {sorted(got.names)}, expected {sorted(dyn.names)}")
        return
    # align variable order
    perm = [got.idx[nm] for nm in dyn.names]
    if perm != list(range(dyn.n)):
        got = _reorder(got, dyn.names)
    for i, nm in enumerate(dyn.names):
        if got.U[i] != dyn.U[i]:
            s = dyn.states(got.U[i] ^ dyn.U[i])[0]
            report("up-transitions", f"{what}: variable {nm}: up-transition enabledness differs in state {dyn.state_named(s)}")
        if got.D[i] != dyn.D[i]:
            s = dyn.states(got.D[i] ^ dyn.D[i])[0]
            report("down-transitions", f"{what}: variable {nm}: down-transition enabledness differs in state {dyn.state_named(s)}")


def _reorder(r: Ref, names):
    """Re-index a Ref to the variable order `names`."""
    n = r.n
    src = [r.idx[nm] for nm in names]
    U = [0] * n
    D = [0] * n
    for t in range(1 << n):
        s = 0
        for j, i in enumerate(src):
            if (t >> j) & 1:
                s |= 1 << i
        for j, i in enumerate(src):
            if (r.U[i] >> s) & 1:
                U[j] |= 1 << t
            if (r.D[i] >> s) & 1:
                D[j] |= 1 << t
    return Ref(names, U, D)


def judge_percolated_network(new_bn, orig: Ref, space_named: dict, remove_constants: bool, report, what):
    """percolate_network(bn, space, remove_constants) against the reference."""
    P = orig.percolate(orig.sp(space_named))
    names = [new_bn.get_variable_name(v) for v in new_bn.variables()]
    if remove_constants:
        exp_names = [orig.names[i] for i in range(orig.n) if i not in P]
        if sorted(names) != sorted(exp_names):
            report("variables", f"{what}: variables {sorted(names)}, expected the free ones {sorted(exp_names)}")
            return
        sub = restrict_ref(orig, P)
        got = ref_of_bn(new_bn)
        if got.names != sub.names:
            got = _reorder(got, sub.names)
        for i, nm in enumerate(sub.names):
            if got.F1[i] != sub.F1[i]:
                s = sub.states(got.F1[i] ^ sub.F1[i])[0]
                report("function", f"{what}: function of {nm} differs from the original restricted to the percolated space, e.g. at {sub.state_named(s)}")
    else:
        if sorted(names) != sorted(orig.names):
            report("variables", f"{what}: variables {sorted(names)}, expected all of {sorted(orig.names)}")
            return
        got = ref_of_bn(new_bn)
        if got.names != orig.names:
            got = _reorder(got, orig.names)
        S = orig.sub(P)
        for i, nm in enumerate(orig.names):
            if i in P:
                # must be the constant; a given value that conflicts with the dynamics stays as given
                want = orig.ALL if P[i] else 0
                if got.F1[i] != want:
                    report("constant", f"{what}: fixed variable {nm} is not the constant {P[i]}")
            else:
                if (got.F1[i] ^ orig.F1[i]) & S:
                    s = orig.states((got.F1[i] ^ orig.F1[i]) & S)[0]
                    report("function", f"{what}: function of {nm} differs on the percolated space, e.g. at {orig.state_named(s)}")


# ------------------------------------------------------------------------------- C11
def judge_percolate(result_named, ref: Ref, space_named, report, what, strict=False):
    sp = ref.sp(space_named)
    exp = ref.percolate_strict(sp) if strict else ref.percolate(sp)
    got = ref.sp(result_named)
    if got != exp:
        for i, v in sp.items():
            if not strict and got.get(i) != v:
                report("given-value-changed", f"{what}: given {ref.names[i]}={v} became {got.get(i)}")
                return
        miss = {ref.names[i]: v for i, v in exp.items() if got.get(i) != v}
        extra = {ref.names[i]: v for i, v in got.items() if exp.get(i) != v}
        if miss:
            report("derivable-missing", f"{what}: space {space_named}: expected also {miss}")
        if extra:
            report("underivable-present", f"{what}: space {space_named}: unexpected {extra}")
