"""Adapter between harness-owned networks / reference model and the real library.
Imported only inside worker processes (imports biobalm from the repository working tree)."""
from __future__ import annotations

import os
import sys

import biobalm  # noqa: F401
from biobalm import SuccessionDiagram
from biodivine_aeon import BooleanNetwork

from . import expr as X
from .instrument import METER, WorkBudgetExceeded, NoProgress, default_budget
from .ref import Ref, key

REPO = os.environ.get("VERIF_REPO", "/repo")
assert os.path.realpath(biobalm.__file__).startswith(os.path.realpath(REPO) + os.sep), (
    f"biobalm imported from {biobalm.__file__}, expected under {REPO}"
)


def bnet_of(net) -> str:
    return X.to_bnet(net["names"], net["exprs"])


def aeon_of(net) -> str:
    """.aeon text: regulations derived from syntactic support, explicit update functions."""
    lines = []
    for n in net["names"]:
        for r in sorted(X.support(net["exprs"][n])):
            lines.append(f"{r} -? {n}")
    for n in net["names"]:
        lines.append(f"${n}: {X.emit(net['exprs'][n])}")
    return "\n".join(lines) + "\n"


def ref_of(net) -> Ref:
    return Ref.from_exprs(net["names"], net["exprs"])


def make_sd(net, config: dict | None = None, fmt: str = "bnet") -> SuccessionDiagram:
    cfg = SuccessionDiagram.default_config()
    if config:
        cfg.update(config)
    if fmt == "bnet":
        return SuccessionDiagram.from_rules(bnet_of(net), "bnet", cfg)
    if fmt == "aeon":
        return SuccessionDiagram.from_rules(aeon_of(net), "aeon", cfg)
    if fmt == "sbml":
        sbml = BooleanNetwork.from_bnet(bnet_of(net)).to_sbml()
        return SuccessionDiagram.from_rules(sbml, "sbml", cfg)
    raise ValueError(fmt)


def make_bn(net) -> BooleanNetwork:
    return BooleanNetwork.from_bnet(bnet_of(net))


# ----------------------------------------------------------------------------- conversions
def kspace(ref: Ref, named: dict) -> tuple:
    """Canonical key (tuple of (index, value)) of a named space."""
    return key(ref.sp(named))


def vset_states(ref: Ref, vs) -> tuple[set, list]:
    """States of an AEON VertexSet as ints over ref's variable order, plus problems."""
    out = set()
    problems = []
    for m in vs.items():
        d = m.to_named_dict()
        if set(d.keys()) != set(ref.names):
            problems.append(f"vertex over variables {sorted(d.keys())}")
            continue
        s = 0
        for k, v in d.items():
            if int(v):
                s |= 1 << ref.idx[k]
        out.add(s)
    return out, problems


def bits_of(states) -> int:
    b = 0
    for s in states:
        b |= 1 << s
    return b


def is_full_state(ref: Ref, named: dict) -> bool:
    return set(named.keys()) == set(ref.names) and all(v in (0, 1) for v in named.values())


# ----------------------------------------------------------------------------- dumps
def dump_ids(sd, with_attr=True, sort_motifs=False):
    """Dump with node ids through the public API (literal order where the API fixes one)."""
    out = []
    for i in sd.node_ids():
        d = sd.node_data(i)
        succ = sorted(sd.dag.successors(i))
        rec = {
            "id": i,
            "space": sorted(d["space"].items()),
            "depth": d["depth"],
            "expanded": bool(d["expanded"]),
            "skipped": d["skipped"],
            "succ": [],
        }
        for j in succ:
            ms = [sorted(m.items()) for m in sd.edge_all_stable_motifs(i, j)]
            if sort_motifs:
                ms = sorted(ms)
            rec["succ"].append([j, sorted(sd.edge_stable_motif(i, j).items()), ms])
        if with_attr:
            c = d["attractor_candidates"]
            s = d["attractor_seeds"]
            a = d["attractor_sets"]
            rec["cand"] = None if c is None else sorted(sorted(x.items()) for x in c)
            rec["seeds"] = None if s is None else [sorted(x.items()) for x in s]
            rec["sets"] = None if a is None else [sorted(sorted(m.to_named_dict().items()) for m in vs.items()) for vs in a]
        out.append(rec)
    return out


def dump_space(sd, ref: Ref, motifs=True):
    """Dump by space (isomorphism level): {space key: (expanded, {child key: sorted motif keys})}."""
    out = {}
    for i in sd.node_ids():
        d = sd.node_data(i)
        k = kspace(ref, d["space"])
        ch = {}
        for j in sd.dag.successors(i):
            ck = kspace(ref, sd.node_data(j)["space"])
            ch[ck] = sorted(kspace(ref, m) for m in sd.edge_all_stable_motifs(i, j)) if motifs else None
        out.setdefault(k, []).append((bool(d["expanded"]), ch))
    return out


# ----------------------------------------------------------------------------- metered calls
class Aborted(Exception):
    """A library call was cut short by the work meter (budget or no-progress)."""

    def __init__(self, kind, where, used):
        super().__init__(f"{kind} in {where} after {used} back-edges")
        self.kind, self.where, self.used = kind, where, used


def metered(fn, budget: int, fingerprints: bool = False, wall_limit: float = 0.0):
    """Run fn() under the work meter; returns (result, back_edges).  Raises Aborted."""
    ctx = METER.call(budget, fingerprints, wall_limit)
    try:
        with ctx:
            r = fn()
    except WorkBudgetExceeded as e:
        kind = "wallclock-guard" if str(e).startswith("wallclock-guard") else "budget"
        raise Aborted(kind, str(e), ctx.used) from None
    except NoProgress as e:
        raise Aborted("no-progress", str(e), ctx.used) from None
    return r, ctx.used


_LIVE_SDS: list = []


def track_diagrams():
    """Remember the last few SuccessionDiagrams constructed from now on (the class has __slots__ without
    __weakref__, so these are strong references in a short ring that each case clears), so that a work bound
    can use the current size of the diagram an operation is building (`SuccessionDiagram.build` creates its own)."""
    if getattr(SuccessionDiagram, "_vf_tracked", False):
        return
    orig = SuccessionDiagram.__init__

    def __init__(self, *a, **k):
        if len(_LIVE_SDS) >= 8:
            # source-SCC / block expansion constructs many small sub-diagrams: keep the largest diagram and the newest
            big = max(_LIVE_SDS, key=lambda s: s.dag.number_of_nodes() if hasattr(s, "dag") else 0)
            _LIVE_SDS[:] = [big] + [s for s in _LIVE_SDS[-6:] if s is not big]
        _LIVE_SDS.append(self)
        return orig(self, *a, **k)

    SuccessionDiagram.__init__ = __init__
    SuccessionDiagram._vf_tracked = True


def live_nodes() -> int:
    m = 1
    for s in _LIVE_SDS:
        if hasattr(s, "dag"):
            m = max(m, s.dag.number_of_nodes())
    return m


def _edge_mult(s, u, v) -> int:
    try:
        return max(1, len(s.edge_all_stable_motifs(u, v, reduced=True)))
    except Exception:
        return 1


def live_paths(cap: int = 10**6, extra=None) -> int:
    """Number of successions (root->node paths, each edge counted once per stable motif it carries) summed over all
    nodes of the largest live diagram (capped): succession control enumerates exactly these (`all_simple_paths` x
    `product(edge_all_stable_motifs)`), so its work is proportional to this output-size quantity."""
    import networkx as nx

    best = 1
    for s in list(_LIVE_SDS) + ([extra] if extra is not None else []):
        if not hasattr(s, "dag"):
            continue
        try:
            cnt = {}
            for v in nx.topological_sort(s.dag):
                cnt[v] = max(1, sum(cnt[u] * _edge_mult(s, u, v) for u in s.dag.predecessors(v)))
            best = max(best, min(cap, sum(cnt.values())))
        except Exception:
            best = cap
    return best


def budget_for(ref_or_n, nodes: int = 1) -> int:
    n = ref_or_n if isinstance(ref_or_n, int) else ref_or_n.n
    return default_budget(n, nodes)
