"""Instrumentation attached from the harness (nothing under /repo is edited).

 * WorkMeter       : sys.monitoring JUMP back-edge counter + while-loop-head fingerprints
 * TracingDiGraph  : networkx DiGraph whose node attribute dicts log every write
 * contract()      : post-condition wrappers patched into every biobalm module global
 * FaultyControl   : clingo.Control subclass raising at the k-th solver call
"""
from __future__ import annotations

import ast
import inspect
import os
import sys
import time
import types

import networkx as nx

GUARD = "BIOBALM_VERIF"


def enabled() -> bool:
    return os.environ.get(GUARD, "") not in ("", "0")


# =============================================================================== work meter
class WorkBudgetExceeded(BaseException):
    """Raised inside biobalm code when the back-edge budget of a call is exhausted.
    BaseException so that `except Exception` / `except RuntimeError` in the library cannot
    swallow it."""


class NoProgress(BaseException):
    """Raised when a while-loop head is reached repeatedly with an identical frame."""


def _biobalm_modules():
    out = []
    for mname, mod in list(sys.modules.items()):
        if mod is None or not (mname == "biobalm" or mname.startswith("biobalm.")):
            continue
        if getattr(mod, "__file__", None):
            out.append(mod)
    return out


def _codes_of(mod):
    out = []
    seen = set()

    def sub(c):
        if id(c) in seen:
            return
        seen.add(id(c))
        out.append(c)
        for k in c.co_consts:
            if isinstance(k, types.CodeType):
                sub(k)

    for _, obj in list(vars(mod).items()):
        if inspect.isfunction(obj) and obj.__module__ == mod.__name__:
            sub(obj.__code__)
        elif inspect.isclass(obj) and obj.__module__ == mod.__name__:
            for _, o2 in list(vars(obj).items()):
                f = o2.__func__ if isinstance(o2, (staticmethod, classmethod)) else o2
                if isinstance(f, property):
                    f = f.fget
                if inspect.isfunction(f):
                    sub(f.__code__)
    return out


def _fp(v, depth=0):
    try:
        if isinstance(v, (int, str, bool, type(None), float)):
            return v
        if depth > 3:
            return ("deep", type(v).__name__)
        if isinstance(v, (list, tuple)):
            if len(v) > 500:
                return ("big", type(v).__name__, len(v), _fp(v[-1], depth + 1))
            return tuple(_fp(x, depth + 1) for x in v)
        if isinstance(v, (set, frozenset)):
            if len(v) > 500:
                return ("big", "set", len(v))
            return frozenset(_fp(x, depth + 1) for x in v)
        if isinstance(v, dict):
            if len(v) > 500:
                return ("big", "dict", len(v))
            return tuple(sorted((repr(k), _fp(x, depth + 1)) for k, x in v.items()))
        if isinstance(v, (types.FunctionType, types.ModuleType, type)):
            return ("obj", id(v))
        if isinstance(v, nx.Graph):
            return ("graph", v.number_of_nodes(), v.number_of_edges())
        return ("h", type(v).__name__, hash(v))
    except TypeError:
        try:
            return ("r", type(v).__name__, repr(v)[:200])
        except Exception:
            return ("id", type(v).__name__)


class WorkMeter:
    TOOL = 3
    REPEAT = 50

    def __init__(self):
        self.count = 0
        self.budget = 1 << 62
        self.budget_fn = None
        self.fingerprints = False
        self.heads: dict = {}
        self.last: dict = {}
        self.heads_seen = 0
        self.installed = False
        self.ncodes = 0
        self.active = False
        self.per_fn: dict = {}
        self.profile = False
        self.wall_limit = 0.0
        self.wall_deadline = 0.0

    def install(self):
        if self.installed:
            return
        mon = sys.monitoring
        try:
            mon.use_tool_id(self.TOOL, "vf-workmeter")
        except ValueError:
            pass
        mon.register_callback(self.TOOL, mon.events.JUMP, self._on_jump)
        mon.register_callback(self.TOOL, mon.events.LINE, self._on_line)
        self.refresh()
        self.installed = True

    def refresh(self):
        """(Re)scan loaded biobalm modules; loop heads come from parsing their current source."""
        mon = sys.monitoring
        self.heads = {}
        n = 0
        for mod in _biobalm_modules():
            try:
                with open(mod.__file__) as fh:
                    tree = ast.parse(fh.read())
                lines = {nd.lineno for nd in ast.walk(tree) if isinstance(nd, ast.While)}
            except Exception:
                lines = set()
            for c in _codes_of(mod):
                ev = mon.events.JUMP
                ls = {l for (_, _, l) in c.co_lines() if l in lines}
                if ls:
                    self.heads[c] = ls
                    ev |= mon.events.LINE
                mon.set_local_events(self.TOOL, c, ev)
                n += 1
        self.ncodes = n

    def _on_jump(self, code, src, dst):
        if dst < src and self.active:
            self.count += 1
            if self.wall_limit and (self.count & 1023) == 0 and time.monotonic() > self.wall_deadline:
                self.active = False
                raise WorkBudgetExceeded(f"wallclock-guard:{code.co_qualname} ({os.path.basename(code.co_filename)})")
            if self.profile:
                q = code.co_qualname
                self.per_fn[q] = self.per_fn.get(q, 0) + 1
            if self.count > self.budget:
                if self.budget_fn is not None:
                    # a bound that depends on state which grows during the call (size of the diagram):
                    # re-evaluate it when it is reached
                    self.active = False
                    self.budget = self.budget_fn()
                    self.active = True
                    if self.count <= self.budget:
                        return
                self.active = False
                raise WorkBudgetExceeded(f"{code.co_qualname} ({os.path.basename(code.co_filename)})")

    def _on_line(self, code, line):
        hs = self.heads.get(code)
        if hs is None or line not in hs:
            return sys.monitoring.DISABLE
        if not (self.active and self.fingerprints):
            return None
        fr = sys._getframe(1)
        k = (id(fr), line)
        f = tuple(sorted((n, _fp(v)) for n, v in fr.f_locals.items() if n != "sd"))
        self.heads_seen += 1
        # the code is deterministic: a loop head reached again and again with an identical frame state
        # (consecutively, or in a cycle of states) makes no progress
        seen = self.last.get(k)
        if seen is None:
            if len(self.last) > 2000:
                self.last.clear()
            seen = self.last[k] = {}
        h = hash(f)
        cnt = seen.get(h, 0) + 1
        if cnt >= self.REPEAT:
            self.active = False
            raise NoProgress(f"{code.co_qualname}:{line} ({os.path.basename(code.co_filename)})")
        if len(seen) > 4000:
            seen.clear()
        seen[h] = cnt
        return None

    # -- use as:  with METER.call(budget):  sd.expand_bfs()
    def call(self, budget: int, fingerprints: bool = False, wall_limit: float = 0.0):
        """wall_limit > 0: additionally abort the call after that many seconds (checked every 1024 back-edges).
        Such an abort is never a verdict: callers report it as an inconclusive case."""
        c = _MeterCtx(self, budget, fingerprints)
        c.wall_limit = wall_limit
        return c


class _MeterCtx:
    def __init__(self, m, budget, fp):
        self.m, self.budget, self.fp = m, budget, fp

    def __enter__(self):
        m = self.m
        m.install()
        self.saved = (m.count, m.budget, m.fingerprints, m.active, m.wall_limit, m.wall_deadline, m.budget_fn)
        m.wall_limit = getattr(self, "wall_limit", 0.0)
        m.wall_deadline = time.monotonic() + m.wall_limit
        m.count = 0
        if callable(self.budget):
            m.budget_fn = self.budget
            m.budget = self.budget()
        else:
            m.budget_fn = None
            m.budget = self.budget
        m.fingerprints = self.fp
        m.last.clear()
        m.active = True
        return m

    def __exit__(self, et, ev, tb):
        m = self.m
        self.used = m.count
        m.count, m.budget, m.fingerprints, m.active = self.saved[0] + m.count, self.saved[1], self.saved[2], self.saved[3]
        m.wall_limit, m.wall_deadline, m.budget_fn = self.saved[4], self.saved[5], self.saved[6]
        return False


METER = WorkMeter()


def default_budget(n_vars: int, n_nodes: int = 1) -> int:
    """C13's generous work bound in executed loop back-edges inside biobalm code:
    B(n, nodes) = 5*10^4 * (n+1)^3 + 500 * (n+1)^2 * (2^n + nodes + 1).
    Calibrated on the measured maxima of terminating calls per network size (n=1: 5e3,
    n=4: 1.6e5, n=7: 5.7e5 back-edges): >= 40x above them for every n."""
    n1 = n_vars + 1
    return 50_000 * n1 ** 3 + 500 * n1 ** 2 * ((1 << min(n_vars, 24)) + n_nodes + 1)


# =============================================================================== write tracing
class Trace:
    def __init__(self):
        self.events: list = []
        self.call_index = 0
        self.on = False

    def reset(self):
        self.events = []
        self.call_index = 0


TRACE = Trace()


class TDict(dict):
    __slots__ = ("_nid", "_tag")

    def __setitem__(self, k, v):
        if TRACE.on:
            old = dict.get(self, k, "<unset>")
            fn = "?"
            try:
                f = sys._getframe(1)
                # skip networkx frames
                while f is not None and "networkx" in f.f_code.co_filename:
                    f = f.f_back
                if f is not None:
                    fn = f.f_code.co_name
            except Exception:
                pass
            TRACE.events.append(
                (TRACE.call_index, getattr(self, "_tag", None), getattr(self, "_nid", None), k, _brief(old), _brief(v), fn)
            )
        dict.__setitem__(self, k, v)

    def update(self, *a, **kw):  # networkx add_node uses update()
        for k, v in dict(*a, **kw).items():
            self[k] = v

    def __reduce_ex__(self, proto):
        return (_mk_tdict, (dict(self), getattr(self, "_nid", None), getattr(self, "_tag", None)))


def _mk_tdict(d, nid, tag):
    t = TDict()
    dict.update(t, d)
    t._nid = nid
    t._tag = tag
    return t


def _brief(v):
    if v is None or isinstance(v, (bool, int, str)):
        return v
    if isinstance(v, list):
        return ("list", len(v))
    return type(v).__name__


class TracingDiGraph(nx.DiGraph):
    node_attr_dict_factory = TDict
    _tag_counter = 0

    def add_node(self, n, **attr):
        new = n not in self._node
        super().add_node(n, **attr)
        d = self._node[n]
        if new and isinstance(d, TDict):
            d._nid = n
            d._tag = self.graph.get("vf_tag")


def trace_sd(sd):
    """Swap sd.dag for a write-tracing copy (same nodes, edges, attribute objects)."""
    if isinstance(sd.dag, TracingDiGraph):
        return sd
    g = TracingDiGraph()
    TracingDiGraph._tag_counter += 1
    g.graph["vf_tag"] = TracingDiGraph._tag_counter
    was = TRACE.on
    TRACE.on = False
    try:
        for n, d in sd.dag.nodes(data=True):
            g.add_node(n, **d)
        for u, v, d in sd.dag.edges(data=True):
            g.add_edge(u, v, **d)
    finally:
        TRACE.on = was
    sd.dag = g
    return sd


# =============================================================================== contracts
class ContractStats:
    def __init__(self):
        self.evals: dict = {}
        self.witnesses: list = []

    def reset(self):
        self.evals = {}
        self.witnesses = []


CONTRACTS = ContractStats()
_PATCHED: list = []

try:  # icontract is installed into /verif/.deps by setup; a plain wrapper is used otherwise
    import icontract  # type: ignore

    HAVE_ICONTRACT = True
except Exception:  # pragma: no cover
    icontract = None
    HAVE_ICONTRACT = False


class PostconditionBroken(Exception):
    pass


def contract(module, name: str, cond):
    """Attach post-condition `cond(result=..., **bound_arguments) -> bool` to module.name and
    patch the wrapper into every biobalm module global that refers to the original
    function.  `cond` records witnesses itself and returns True (record-and-continue)."""
    orig = getattr(module, name)
    if getattr(orig, "_vf_contract", False):
        return orig
    sig = inspect.signature(orig)
    label = f"{module.__name__}.{name}"

    def evaluate(args, kwargs, result):
        CONTRACTS.evals[label] = CONTRACTS.evals.get(label, 0) + 1
        try:
            ba = sig.bind(*args, **kwargs)
            ba.apply_defaults()
            cond(result=result, **ba.arguments)
        except Exception as e:  # a crashing oracle must never look like a library failure
            CONTRACTS.witnesses.append({"contract": label, "oracle_error": repr(e)})

    if HAVE_ICONTRACT:
        # icontract evaluates the condition with the function's own argument names
        params = list(sig.parameters)

        def _cond(**kw):
            result = kw.pop("result")
            CONTRACTS.evals[label] = CONTRACTS.evals.get(label, 0) + 1
            try:
                cond(result=result, **kw)
            except Exception as e:
                CONTRACTS.witnesses.append({"contract": label, "oracle_error": repr(e)})
            return True

        src = "def _named(" + ", ".join(params + ["result"]) + "):\n    return _cond(" + ", ".join(
            f"{p}={p}" for p in params + ["result"]
        ) + ")\n"
        ns = {"_cond": _cond}
        exec(src, ns)
        wrapper = icontract.ensure(ns["_named"], error=PostconditionBroken)(orig)
    else:
        import functools

        @functools.wraps(orig)
        def wrapper(*args, **kwargs):
            result = orig(*args, **kwargs)
            evaluate(args, kwargs, result)
            return result

    try:
        wrapper._vf_contract = True
        wrapper._vf_orig = orig
    except Exception:
        pass
    for mod in _biobalm_modules():
        for k, v in list(vars(mod).items()):
            if v is orig:
                setattr(mod, k, wrapper)
                _PATCHED.append((mod, k, orig))
    return wrapper


def remove_contracts():
    for mod, k, orig in reversed(_PATCHED):
        setattr(mod, k, orig)
    _PATCHED.clear()


# =============================================================================== solver faults
class InjectedSolverFailure(RuntimeError):
    pass


class FaultState:
    calls = 0
    fail_at = None  # 1-based index of the ground()/solve() call that raises
    log: list = []


def install_fault_injector():
    import biobalm.trappist_core as TC

    if getattr(TC.Control, "_vf_faulty", False):
        return
    Base = TC.Control

    class FaultyControl(Base):  # type: ignore[misc, valid-type]
        _vf_faulty = True

        def ground(self, *a, **k):
            FaultState.calls += 1
            if FaultState.fail_at == FaultState.calls:
                FaultState.log.append(("ground", FaultState.calls))
                raise InjectedSolverFailure("injected solver failure (ground)")
            return super().ground(*a, **k)

        def solve(self, *a, **k):
            FaultState.calls += 1
            if FaultState.fail_at == FaultState.calls:
                FaultState.log.append(("solve", FaultState.calls))
                raise InjectedSolverFailure("injected solver failure (solve)")
            return super().solve(*a, **k)

    TC.Control = FaultyControl
