"""Worker process: reads JSON cases on stdin, runs props.<id>.run_case, writes JSON results on
a private descriptor (fd 1 and 2 of the process are silenced: clingo chatter, debug prints)."""
from __future__ import annotations

import faulthandler
import importlib
import json
import os
import sys
import time
import traceback


def main():
    prop = sys.argv[1]
    out = os.fdopen(os.dup(1), "w")
    log = os.environ.get("VERIF_WORKER_LOG", os.devnull)
    fd = os.open(log, os.O_WRONLY | os.O_APPEND | os.O_CREAT)
    os.dup2(fd, 1)
    os.dup2(fd, 2)
    sys.stdout = os.fdopen(1, "w", closefd=False)
    sys.stderr = os.fdopen(2, "w", closefd=False)
    faulthandler.enable(file=sys.stderr)
    sys.setrecursionlimit(20000)
    os.environ.setdefault("BIOBALM_VERIF", "1")
    mod = importlib.import_module(f"vf.props.{prop.lower()}")
    out.write(json.dumps({"ready": True, "pid": os.getpid()}) + "\n")
    out.flush()
    for line in sys.stdin:
        line = line.strip()
        if not line:
            continue
        case = json.loads(line)
        if case.get("cmd") == "exit":
            break
        t0 = time.time()
        try:
            res = mod.run_case(case)
        except BaseException as e:  # harness bug or library crash outside any guard
            res = {
                "viol": [],
                "cnt": {},
                "inconclusive": f"harness-exception: {type(e).__name__}: {e}",
                "trace": traceback.format_exc()[-3000:],
            }
        res["id"] = case.get("id")
        res["wall"] = round(time.time() - t0, 3)
        out.write(json.dumps(res, default=str) + "\n")
        out.flush()


if __name__ == "__main__":
    main()
