"""Driver: builds the case list of one property, feeds a pool of persistent worker
subprocesses, aggregates monitor observations into a three-valued verdict and writes the
evidence file.

exit 0  held on everything observed (known findings are printed as KNOWN-FINDING lines)
exit 1  at least one violation whose mechanism key is not an open known finding
exit 2  inconclusive (deciding monitor observed too little, too many aborted cases, ...)
"""
from __future__ import annotations

import argparse
import fnmatch
import importlib
import json
import os
import queue
import select
import subprocess
import sys
import threading
import time

ROOT = os.path.dirname(os.path.dirname(os.path.abspath(__file__)))
REPO = os.environ.get("VERIF_REPO", "/repo")
PY = os.environ.get("VERIF_PYTHON", "/venv/bin/python")


def worker_env(extra=None):
    env = dict(os.environ)
    deps = os.path.join(ROOT, ".deps")
    env["PYTHONPATH"] = os.pathsep.join([REPO, ROOT, deps])
    env.setdefault("PYTHONHASHSEED", "0")
    env["BIOBALM_VERIF"] = "1"
    env["PYTHONDONTWRITEBYTECODE"] = "1"
    if extra:
        env.update(extra)
    return env


class Worker:
    def __init__(self, prop, env=None):
        self.prop = prop
        self.env = env
        self.p = None
        self.start()

    def start(self):
        self.p = subprocess.Popen(
            [PY, "-m", "vf.worker", self.prop],
            stdin=subprocess.PIPE,
            stdout=subprocess.PIPE,
            stderr=subprocess.DEVNULL,
            env=worker_env(self.env),
            cwd=ROOT,
            text=True,
            bufsize=1,
        )
        line = self._readline(120)
        if not line or '"ready"' not in line:
            err = f"worker failed to start: {line!r}"
            self.kill()
            raise RuntimeError(err)

    def _readline(self, timeout):
        fd = self.p.stdout.fileno()
        r, _, _ = select.select([fd], [], [], timeout)
        if not r:
            return None
        return self.p.stdout.readline()

    def run(self, case, deadline):
        try:
            self.p.stdin.write(json.dumps(case) + "\n")
            self.p.stdin.flush()
        except (BrokenPipeError, OSError):
            self.kill()
            self.start()
            return {"id": case.get("id"), "viol": [], "cnt": {}, "inconclusive": "worker-died-before"}
        line = self._readline(deadline)
        if line is None:
            self.kill()
            self.start()
            return {"id": case.get("id"), "viol": [], "cnt": {}, "inconclusive": "wallclock"}
        if line == "":
            rc = self.p.poll()
            self.kill()
            self.start()
            return {"id": case.get("id"), "viol": [], "cnt": {}, "inconclusive": f"worker-died rc={rc}"}
        try:
            return json.loads(line)
        except Exception:
            return {"id": case.get("id"), "viol": [], "cnt": {}, "inconclusive": "bad-result-line"}

    def kill(self):
        try:
            self.p.kill()
            self.p.wait(10)
        except Exception:
            pass

    def close(self):
        try:
            self.p.stdin.write(json.dumps({"cmd": "exit"}) + "\n")
            self.p.stdin.flush()
            self.p.wait(5)
        except Exception:
            self.kill()


def run_pool(prop, cases, jobs, deadline, env=None, progress=True, stop_after_viol=None, counts=None):
    q: queue.Queue = queue.Queue()
    for c in cases:
        q.put(c)
    results = []
    tally = {"viol": 0, "inc": 0}
    lock = threading.Lock()
    stop = threading.Event()
    t0 = time.time()

    def loop():
        try:
            w = Worker(prop, env)
        except Exception as e:
            with lock:
                results.append({"id": None, "viol": [], "cnt": {}, "inconclusive": f"worker-start: {e}"})
            return
        while not stop.is_set():
            try:
                c = q.get_nowait()
            except queue.Empty:
                break
            r = w.run(c, c.get("deadline", deadline))
            r["_case"] = c
            with lock:
                results.append(r)
                # only violations that are not open known findings count towards the early stop
                if counts(r) if counts else r.get("viol"):
                    tally["viol"] += 1
                if r.get("inconclusive"):
                    tally["inc"] += 1
                if stop_after_viol and tally["viol"] >= stop_after_viol:
                    stop.set()
                # a run drowning in aborted cases is inconclusive whatever follows
                if len(results) >= 400 and tally["inc"] >= 150 and tally["inc"] > 0.3 * len(results):
                    stop.set()
                if progress and os.environ.get("VERIF_PROGRESS") and len(results) % 200 == 0:
                    print(f"  .. {len(results)}/{len(cases)} cases, {time.time() - t0:.0f}s", file=sys.stderr, flush=True)
        w.close()

    threads = [threading.Thread(target=loop, daemon=True) for _ in range(max(1, min(jobs, len(cases))))]
    for t in threads:
        t.start()
    for t in threads:
        t.join()
    return results


def load_known():
    path = os.path.join(ROOT, "known_findings.json")
    if not os.path.exists(path):
        return []
    with open(path) as fh:
        return json.load(fh).get("findings", [])


def classify(prop, vkey, known):
    for k in known:
        if k.get("property") == prop and k.get("status") == "open" and fnmatch.fnmatch(vkey, k["key"]):
            return k
    return None


def main(argv=None):
    ap = argparse.ArgumentParser()
    ap.add_argument("prop")
    ap.add_argument("--tier", default=os.environ.get("VERIF_TIER", "quick"))
    ap.add_argument("--seed", type=int, default=int(os.environ.get("VERIF_SEED", "0") or 0))
    ap.add_argument("--jobs", type=int, default=int(os.environ.get("VERIF_JOBS", "16")))
    ap.add_argument("--replay")
    ap.add_argument("--max-cases", type=int, default=None)
    ap.add_argument("--no-evidence", action="store_true")
    args = ap.parse_args(argv)
    prop = args.prop.upper()
    tier = "thorough" if args.tier.startswith("t") else "quick"
    t0 = time.time()
    mod = importlib.import_module(f"vf.props.{prop.lower()}")
    known = load_known()
    deadline = getattr(mod, "DEADLINE", 300)

    if args.replay:
        with open(args.replay) as fh:
            rp = json.load(fh)
        cases = [rp["case"]]
    else:
        cases = list(mod.cases(tier, args.seed))
        if args.max_cases:
            cases = cases[: args.max_cases]
    for i, c in enumerate(cases):
        c.setdefault("id", f"{prop}/{args.seed}/{i}")
    print(f"[{prop}] tier={tier} seed={args.seed} cases={len(cases)} jobs={args.jobs} repo={REPO}", flush=True)

    env = getattr(mod, "WORKER_ENV", None)
    # once this many cases have reported violations the verdict cannot change any more: stop feeding
    # (keeps runs against badly broken trees short; never triggers on a tree where the property holds)
    stop_after = int(os.environ.get("VERIF_STOP_AFTER", "60"))
    def _unlisted(r):
        return any(classify(prop, v["key"], known) is None for v in (r.get("viol") or []))

    results = run_pool(prop, cases, args.jobs, deadline, env=env, stop_after_viol=stop_after, counts=_unlisted)
    if len(results) < len(cases):
        print(f"[{prop}] stopped early after {len(results)}/{len(cases)} cases: {stop_after} cases with violations")

    # ---------------------------------------------------------------- aggregate
    cnt: dict = {}
    mx: dict = {}
    mx_at: dict = {}
    hashes = set()
    nontrivial_hashes = set()
    samples = []
    incon: dict = {}
    incon_examples: list = []
    classes: dict = {}
    viols = []
    evaluations = 0
    for r in results:
        evaluations += int(r.get("evals", 1))
        for k, v in (r.get("cnt") or {}).items():
            cnt[k] = cnt.get(k, 0) + v
        for k, v in (r.get("max") or {}).items():
            if k not in mx or v > mx[k]:
                mx[k] = v
                cc = r.get("_case") or {}
                mx_at[k] = f"{cc.get('id')} cls={cc.get('cls') or (cc.get('net') or {}).get('cls')}"
        for h in r.get("nt_hashes") or ([r["hash"]] if r.get("nontrivial") and r.get("hash") else []):
            nontrivial_hashes.add(h)
        if r.get("hash"):
            hashes.add(r["hash"])
        if r.get("sample") is not None and len(samples) < 5:
            samples.append(r["sample"])
        if r.get("inconclusive"):
            reason = str(r["inconclusive"]).split(":")[0]
            incon[reason] = incon.get(reason, 0) + 1
            if len(incon_examples) < 6:
                cc = r.get("_case") or {}
                incon_examples.append({"id": cc.get("id"), "cls": cc.get("cls"), "mode": cc.get("mode"), "why": str(r["inconclusive"])[:160], "history": cc.get("history")})
        c = r.get("_case") or {}
        cl = c.get("cls") or (c.get("net") or {}).get("cls") or "?"
        cl = cl.split(":")[0]
        classes[cl] = classes.get(cl, 0) + 1
        for v in r.get("viol") or []:
            viols.append((r, v))

    # ---------------------------------------------------------------- verdict
    os.makedirs(os.path.join(ROOT, "replays"), exist_ok=True)
    unlisted = 0
    known_hits: dict = {}
    printed = set()
    nrep = 0
    for r, v in viols:
        k = classify(prop, v["key"], known)
        if k is not None:
            known_hits.setdefault(k["key"], [k, 0])
            known_hits[k["key"]][1] += 1
            continue
        unlisted += 1
        if v["key"] in printed and nrep >= 20:
            continue
        printed.add(v["key"])
        nrep += 1
        path = os.path.join(ROOT, "replays", f"{prop}-{args.seed}-{tier}-{nrep}.json")
        with open(path, "w") as fh:
            json.dump({"property": prop, "violation": v, "case": r.get("_case")}, fh, indent=1, default=str)
        print(f"VIOLATION property={prop} replay={path}")
        print(f"   key={v['key']}  {v.get('msg', '')[:300]}")
    for kk, (k, n) in sorted(known_hits.items()):
        print(f"KNOWN-FINDING: property={prop} {k['key']} — {k.get('what', '')} (seen {n}x this run)")

    reasons = []
    gate = getattr(mod, "gate", None)
    agg = {"cnt": cnt, "max": mx, "evaluations": evaluations, "nontrivial": len(nontrivial_hashes), "tier": tier}
    if gate and not args.replay:
        reasons += list(gate(agg) or [])
    n_incon = sum(incon.values())
    if not args.replay:
        if len(results) and n_incon > 0.2 * len(results):
            reasons.append(f"{n_incon}/{len(results)} cases inconclusive: {incon}")
        if len(nontrivial_hashes) < 2:
            reasons.append("fewer than 2 distinct non-trivial cases observed")

    wall = time.time() - t0
    if not args.no_evidence and not args.replay:
        ev = {
            "property_id": prop,
            "tier": tier,
            "seed": args.seed,
            "level": getattr(mod, "LEVEL", "exploration"),
            "coverage": {
                "evaluations": evaluations,
                "distinct_nontrivial": len(nontrivial_hashes),
                "rule": getattr(mod, "RULE", ""),
                "samples": samples or [{"note": "no sample recorded"}],
                "distinct_cases": len(hashes),
                "monitor_counters": dict(sorted(cnt.items())),
                "monitor_maxima": dict(sorted(mx.items())),
                "monitor_maxima_attained_by": dict(sorted(mx_at.items())),
                "input_classes": dict(sorted(classes.items())),
                "inconclusive_cases": incon,
                "inconclusive_examples": incon_examples,
                "known_findings_seen": {k: n for k, (_, n) in known_hits.items()},
                "unlisted_violations": unlisted,
                "verdict": "violated" if unlisted else ("inconclusive" if reasons else "held-on-observed"),
                "inconclusive_reasons": reasons,
                "exhaustive": bool(getattr(mod, "EXHAUSTIVE", False)),
            },
            "assumptions": list(getattr(mod, "ASSUMPTIONS", [])),
            "wall_s": round(wall, 1),
            "violations": unlisted,
        }
        os.makedirs(os.path.join(ROOT, "evidence"), exist_ok=True)
        with open(os.path.join(ROOT, "evidence", f"{prop}.json"), "w") as fh:
            json.dump(ev, fh, indent=1, default=str)
        # keep the last run of each tier as well (the canonical file is rewritten by every run)
        os.makedirs(os.path.join(ROOT, "evidence", tier), exist_ok=True)
        with open(os.path.join(ROOT, "evidence", tier, f"{prop}.json"), "w") as fh:
            json.dump(ev, fh, indent=1, default=str)

    print(
        f"[{prop}] evaluations={evaluations} distinct_nontrivial={len(nontrivial_hashes)} "
        f"violations(unlisted)={unlisted} known={sum(n for _, n in known_hits.values())} "
        f"inconclusive_cases={n_incon} wall={wall:.0f}s"
    )
    keys = sorted(cnt)
    print("   counters: " + ", ".join(f"{k}={cnt[k]}" for k in keys))
    if mx:
        print("   maxima: " + ", ".join(f"{k}={mx[k]}" for k in sorted(mx)))
    if incon:
        print(f"   inconclusive: {incon}")
        for ex in incon_examples[:4]:
            print(f"     e.g. {ex}")
    if unlisted:
        return 1
    if reasons:
        print(f"INCONCLUSIVE property={prop}: " + "; ".join(reasons))
        return 2
    return 0


if __name__ == "__main__":
    sys.exit(main())
